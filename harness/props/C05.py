"""C05 — Output matching equals the documented relation for every flag combination."""
import itertools
import random

from .. import driver, par
from ..codec import enc, dec
from ..corr import tables
from ..shrink import shrink_strings
from ..oracle import checker_spec

LEAN_TARGETS = ['XdocModel.Proofs.C05', 'XdocModel.Pins.Checker', 'XdocModel.Pins.Defaults']
MANIFEST = {
    'text': ("Proved for ALL strings and all 32 flag settings about the Lean model of checker.check_output/normalize: identical texts "
             "match; empty want matches; with every leniency off the relation is equality of the always-on base normalisation "
             "(`strict_is_base_equality`), the per-line spec of trailing-whitespace removal, `content_preserved` (a match without "
             "wildcards implies equal non-whitespace content up to one pair of surrounding quotes under NORMALIZE_REPR), and "
             "monotonicity per leniency switch under explicitly stated guards. The unguarded monotonicity sentence is FALSE of the "
             "unchanged code in four corner classes: each is a kernel-checked witness theorem and a recorded known finding. "
             "Monotonicity is proved per switch: NORMALIZE_REPR for ALL inputs and flag settings without any guard (`mono_normalize_repr`: the second, role-swapped norm_repr call can never strip the want's quotes once got matches want); ELLIPSIS with NORMALIZE_REPR off, and with it on under the exact guard `EllipsisNrGuard` (`mono_ellipsis_nr_guarded`, shown weakest possible by `mono_ellipsis_nr_guard_exact`: class K-C05-c otherwise); NORMALIZE_WHITESPACE for all inputs under the single guard NORMALIZE_REPR off "
             "(`mono_normalize_whitespace` rests on `ellipsisMatch_collapse`: an ellipsis match survives whitespace collapsing, via "
             "`splitEllipsis (collapse b) = (splitEllipsis b).map collapse`); IGNORE_WHITESPACE under the additional, necessary guard that deleting "
             "whitespace does not re-split the want (class K-C05-d otherwise)."),
    'note': ("Trusted: Lean kernel, allowed axioms only; hand-written matchers for the six regular expressions (texts pinned from the "
             "source by Pins/Checker.lean; Unicode classes compared with the interpreter on every scalar value); the correspondence "
             "harness (exhaustive token strings x 32 flag settings + mutation-derived random pairs) ties model to checker.py."),
    'technique': 'Lean 4 proof (structural induction, case analysis on flags) + kernel-evaluated counterexample witnesses + differential correspondence',
}
RULE = ('ops check_output_all / normalize_all vs checker.check_output / checker.normalize with directive.RuntimeState for ALL 32 settings of '
        '(ELLIPSIS, NORMALIZE_WHITESPACE, IGNORE_WHITESPACE, NORMALIZE_REPR, DONT_ACCEPT_BLANKLINE): all pairs of token strings of '
        "length <=2 over 16 tokens (letters, prefix letters, quotes, blank, newline, tab, '.', '...', ANSI sequences, <BLANKLINE>, \\r) in quick; "
        'length <=3 over reduced alphabets in thorough; random longer pairs derived from each other by mutation; unit ops for each '
        'normalisation step; Unicode tables. non-trivial = got != want and want non-empty; distinct = distinct (got, want)')
ASSUMPTIONS = [
    'str.lower/upper beyond ASCII and lone surrogates are outside the model and not generated',
    're, str.split, str.splitlines, str.rstrip behave as modelled (validated by the correspondence of this run)',
]

TOKENS = ['a', 'u', 'b', 'r', "'", '"', ' ', '\n', '\t', '.', '...', '\x1b[0m', '\x1b[', '\x9b', '<BLANKLINE>', '\r']
FLAG_NAMES = ['ELLIPSIS', 'NORMALIZE_WHITESPACE', 'IGNORE_WHITESPACE', 'NORMALIZE_REPR', 'DONT_ACCEPT_BLANKLINE']


def flagset(n):
    return {'ELLIPSIS': bool(n >> 4 & 1), 'NORMALIZE_WHITESPACE': bool(n >> 3 & 1), 'IGNORE_WHITESPACE': bool(n >> 2 & 1),
            'NORMALIZE_REPR': bool(n >> 1 & 1), 'DONT_ACCEPT_BLANKLINE': bool(n & 1)}


_RS = None


def runstates():
    global _RS
    if _RS is None:
        from xdoctest import directive
        _RS = [directive.RuntimeState(flagset(n)) for n in range(32)]
    return _RS


def impl_check_all(got, want):
    from xdoctest import checker
    out = []
    for rs in runstates():
        try:
            out.append('1' if checker.check_output(got, want, rs) else '0')
        except Exception as ex:
            out.append('E')
    return ''.join(out)


def impl_normalize_all(got, want):
    from xdoctest import checker
    out = []
    for rs in runstates():
        try:
            g, w = checker.normalize(got, want, rs)
            out.append(enc(g))
            out.append(enc(w))
        except Exception as ex:
            out.append('E:' + type(ex).__name__)
            out.append('E')
    return '\t'.join(out)


def token_strings(tokens, maxlen):
    out = []
    for n in range(maxlen + 1):
        for t in itertools.product(tokens, repeat=n):
            out.append(''.join(t))
    return out


def _compare(pairs, with_normalize=True):
    lines = ['check_output_all\t%s\t%s' % (enc(g), enc(w)) for g, w in pairs]
    if with_normalize:
        lines += ['normalize_all\t%s\t%s' % (enc(g), enc(w)) for g, w in pairs]
    model = driver.run_lines(lines, jobs=1)
    n = len(pairs)
    dis = []
    tags = {}
    nontriv = 0
    for k, (g, w) in enumerate(pairs):
        r = impl_check_all(g, w)
        m = model[k]
        if w and g != w:
            nontriv += 1
        ones = m.count('1')
        t = 'all-match' if ones == 32 else ('no-match' if ones == 0 else 'flag-dependent')
        tags[t] = tags.get(t, 0) + 1
        if r != m:
            bad = [i for i in range(32) if r[i] != m[i]]
            dis.append(('check_output', {'got': g, 'want': w, 'flags': flagset(bad[0])}, m[bad[0]], r[bad[0]]))
        if with_normalize:
            rn = impl_normalize_all(g, w)
            mn = model[n + k]
            if rn != mn:
                a = rn.split('\t')
                b = mn.split('\t')
                bad = [i for i in range(64) if a[i] != b[i]]
                i = bad[0]

                def show(x):
                    try:
                        return dec(x)
                    except Exception:
                        return x
                dis.append(('normalize', {'got': g, 'want': w, 'flags': flagset(i // 2), 'which': 'got' if i % 2 == 0 else 'want'},
                            show(b[i]), show(a[i])))
    return n * 32 * (2 if with_normalize else 1), nontriv, tags, dis[:40]


def _shard_tokens(args):
    tokens, maxlen, shard, nshards = args
    strs = token_strings(tokens, maxlen)
    pairs = [(g, w) for i, g in enumerate(strs) if i % nshards == shard for w in strs]
    tot = [0, 0, {}, []]
    B = 20000
    for i in range(0, len(pairs), B):
        a, b, c, d = _compare(pairs[i:i + B])
        tot[0] += a
        tot[1] += b
        for k, v in c.items():
            tot[2][k] = tot[2].get(k, 0) + v
        tot[3].extend(d[:40 - len(tot[3])])
    return tot


def mutate(rng, s):
    toks = TOKENS + ['ab', "u'", 'b"', " '", '  ', '\r\n', 'x\r', '\x1b[31;1m', '....', '\x0c', '\xa0', '_', '1']
    op = rng.randint(0, 6)
    if op == 0 or not s:
        i = rng.randint(0, len(s))
        return s[:i] + rng.choice(toks) + s[i:]
    if op == 1:
        i = rng.randint(0, len(s) - 1)
        return s[:i] + s[i + 1:]
    if op == 2:
        i = rng.randint(0, len(s))
        j = min(len(s), i + rng.randint(0, 3))
        return s[:i] + '...' + s[j:]
    if op == 3:
        q = rng.choice('\'"')
        return q + s + q
    if op == 4:
        i = rng.randint(0, len(s))
        return s[:i] + rng.choice([' ', '\n', '\t', '  \n', '\n<BLANKLINE>\n', '<BLANKLINE>']) + s[i:]
    if op == 5:
        return s.replace('\n\n', '\n<BLANKLINE>\n', 1)
    i = rng.randint(0, len(s) - 1)
    return s[:i] + rng.choice(toks) + s[i + 1:]


REPEAT_UNITS = ['<BLANKLINE>\n', '\n<BLANKLINE>', '\x1b[0m', '\x1b[31;1mred', '\x9b31m', "u'x' ", 'b"y" ', 'a  \n', 'a\t\n', '... ', 'x\r\n',
                'line\n', '\x1b[2K', '  ', "'q' "]


def gen_pair(rng):
    if rng.random() < 0.08:
        # MANY occurrences of the same construct in one text (counts no hand-written example reaches: a substitution
        # that silently stops after N matches, a cache of N entries, ... only shows beyond N)
        unit = rng.choice(REPEAT_UNITS)
        n = rng.randint(9, 40)
        base = ''.join(unit + (rng.choice(['', 'a', 'b', '1']) if rng.random() < 0.5 else '') for _ in range(n))
        got = base
        want = base
        for _ in range(rng.randint(0, 2)):
            want = mutate(rng, want)
        if rng.random() < 0.5:
            # what the text looks like once the construct is normalised away
            got = got.replace('<BLANKLINE>', '').replace('\x1b[0m', '').replace('\x1b[31;1m', '').replace('\x9b31m', '').replace('\x1b[2K', '')
        return got, want
    n = rng.randint(0, 8)
    base = ''.join(rng.choice(TOKENS + ['ab', 'x = 1', "{'k': u'v'}", 'b"raw"', '\n']) for _ in range(n))
    got = base
    want = base
    for _ in range(rng.randint(0, 3)):
        want = mutate(rng, want)
    for _ in range(rng.randint(0, 1)):
        got = mutate(rng, got)
    return got, want


def _shard_random(args):
    seed, shard, count = args
    rng = random.Random('c05:%d:%d' % (seed, shard))
    pairs = [gen_pair(rng) for _ in range(count)]
    a, b, c, d = _compare(pairs)
    keys = set(hash(p) for p in pairs if p[1] and p[0] != p[1])
    return a, keys, c, d, pairs[:2]


UNIT_OPS = [
    ('strip_ansi', lambda s: __import__('xdoctest').utils.strip_ansi(s)),
    ('rm_prefix_u', lambda s: __import__('re').sub(__import__('xdoctest').checker.unicode_literal_re, r'\1\2', s)),
    ('rm_prefix_b', lambda s: __import__('re').sub(__import__('xdoctest').checker.bytes_literal_re, r'\1\2', s)),
    ('rm_blankline', lambda s: __import__('xdoctest').checker.remove_blankline_marker(s)),
    ('trailing_ws', lambda s: __import__('re').sub(__import__('xdoctest').checker.TRAILING_WS, '', s)),
]


def stateful_reuse(ctx, corr):
    """check_output must be a FUNCTION of (got, want, current flags): the same pairs are checked again and again on ONE
    RuntimeState object whose flags are changed in place between the calls (as directives do during a run); a verdict
    remembered from an earlier flag setting shows up as a disagreement with the model"""
    from xdoctest import checker, directive
    rng = ctx.sub_rng('stateful')
    pool = [gen_pair(rng) for _ in range(40)] + [('a bb b', 'a...b'), ("'a'", 'a'), ('a  b', 'a b'), ('x\n\ny', 'x\n<BLANKLINE>\ny'), ('ab', 'a b')]
    names = ['ELLIPSIS', 'NORMALIZE_WHITESPACE', 'IGNORE_WHITESPACE', 'NORMALIZE_REPR', 'DONT_ACCEPT_BLANKLINE']
    rs = directive.RuntimeState()
    seq = []
    for _ in range(2500 if ctx.quick else 40000):
        g, w = rng.choice(pool)
        n = rng.randrange(32)
        seq.append((n, g, w))
    lines = ['check_output\t%s\t%s\t%s' % (''.join('1' if flagset(n)[k] else '0' for k in names), enc(g), enc(w)) for n, g, w in seq]
    model = driver.run_lines(lines)
    for (n, g, w), m in zip(seq, model):
        for k, v in flagset(n).items():
            rs[k] = v
        try:
            r = '1' if checker.check_output(g, w, rs) else '0'
        except Exception as ex:
            r = 'E:' + type(ex).__name__
        corr.count('check_output:stateful')
        if m != r:
            corr.disagree('check_output:stateful', {'got': g, 'want': w, 'flags': flagset(n), 'note': 'one RuntimeState object, flags changed in place between calls'}, m, r)
    corr.tag('stateful-reuse', len(seq))


E2E_POOL = [('a b', 'ab'), ('a  b', 'a b'), ('abc', 'a...'), ("'a'", 'a'), ('a', "'a'"), ('a\n\nb', 'a\n<BLANKLINE>\nb'), ('a b', 'a b'),
            ('ab', 'a b'), ('a-x-b', 'a...b'), ('x', 'y'), ('a \nb', 'a\nb'), ('a\tb', 'ab'), ('a   b', 'a\nb'), ('"q"', 'q')]


def e2e_inline(ctx, corr):
    """the flags as the CHECKER sees them when they are set by directives of a running doctest: a one-statement doctest
    prints `got`, `want` is underneath, one flag is set INLINE (on the statement) or by a BLOCK directive, on top of user
    default options; the verdict of DocTest.run must be the model's check_output under the resulting flags"""
    import warnings as _w
    from xdoctest import core
    rng = ctx.sub_rng('e2e_inline')
    names = ['ELLIPSIS', 'NORMALIZE_WHITESPACE', 'IGNORE_WHITESPACE', 'NORMALIZE_REPR', 'DONT_ACCEPT_BLANKLINE']
    base = {'ELLIPSIS': True, 'NORMALIZE_WHITESPACE': True, 'IGNORE_WHITESPACE': False, 'NORMALIZE_REPR': True, 'DONT_ACCEPT_BLANKLINE': False}
    cases = []
    for _ in range(260 if ctx.quick else 4000):
        got, want = rng.choice(E2E_POOL)
        flag = rng.choice(names)
        val = rng.random() < 0.5
        where = rng.choice(['inline', 'inline', 'block'])
        defaults = rng.choice([{}, {}, {'IGNORE_WHITESPACE': False}, {rng.choice(names): rng.random() < 0.5}])
        cases.append((got, want, flag, val, where, defaults))
    lines = []
    for got, want, flag, val, where, defaults in cases:
        fl = dict(base)
        fl.update(defaults)
        fl[flag] = val
        lines.append('check_output\t%s\t%s\t%s' % (''.join('1' if fl[k] else '0' for k in names), enc(got + '\n'), enc(want)))
    model = driver.run_lines(lines)
    for (got, want, flag, val, where, defaults), m in zip(cases, model):
        d = '%s%s' % ('+' if val else '-', flag)
        stmt = '>>> print(%r)' % got
        if where == 'inline':
            text = stmt + '  # xdoctest: ' + d + '\n' + want + '\n'
        else:
            text = '>>> # xdoctest: ' + d + '\n' + stmt + '\n' + want + '\n'
        with _w.catch_warnings():
            _w.simplefilter('ignore')
            exs = list(core.parse_docstr_examples(text, callname='t', style='freeform', fpath='<verif>', lineno=1))
        corr.count('e2e:directive-flags')
        if not exs:
            corr.unknown += 1
            continue
        ex = exs[0]
        ex.mode = 'native'
        ex.config['default_runtime_state'] = dict(defaults)
        try:
            summary = ex.run(on_error='return', verbose=0)
            r = '0' if summary['failed'] else '1'
        except Exception as e:
            r = 'E:' + type(e).__name__
        corr.nontriv(('e2e', text, repr(sorted(defaults.items()))))
        corr.tag('e2e:%s:%s' % (where, r))
        if r != m:
            corr.disagree('e2e:directive-flags', {'text': text, 'default_runtime_state': defaults, 'got': got + '\n', 'want': want,
                                                   'flags': dict(base, **dict(defaults, **{flag: val}))}, m, r)


def e2e_hits(corr):
    """decide e2e disagreements with the independent matching specification"""
    from ..oracle import checker_spec
    hits = []
    for d in corr.disagreements:
        if d['suite'] != 'e2e:directive-flags' or len(hits) >= 3:
            continue
        i = d['input']
        try:
            exp = bool(checker_spec.check_output(i['got'], i['want'], **i['flags']))
        except Exception:
            continue
        real = d['impl'] == '1'
        if real != exp:
            hits.append({'kind': 'e2e', 'suite': d['suite'], 'input': i, 'expected': exp, 'impl': real,
                         'why': 'the doctest %s although, with the flags its directives and the default options select, the documented relation says %s' % (
                             'passes' if real else 'fails', 'match' if exp else 'mismatch')})
    return hits


def replay_e2e(failing):
    import warnings as _w
    from xdoctest import core
    i = failing['input']
    with _w.catch_warnings():
        _w.simplefilter('ignore')
        ex = list(core.parse_docstr_examples(i['text'], callname='t', style='freeform', fpath='<verif>', lineno=1))[0]
    ex.mode = 'native'
    ex.config['default_runtime_state'] = dict(i['default_runtime_state'])
    summary = ex.run(on_error='return', verbose=0)
    real = not summary['failed']
    print(i['text'])
    print('default options %r -> %s, expected %s' % (i['default_runtime_state'], 'passes' if real else 'fails', 'pass' if failing['expected'] else 'fail'))
    return real != failing['expected']


# ---- multi-statement doctests: flags by default options, block directives, inline directives on statements of several
# ---- shapes (one line, bracketed over several lines with a pure comment line inside), outputs by stdout, by value, by both
E2E_NAMES = ['ELLIPSIS', 'NORMALIZE_WHITESPACE', 'IGNORE_WHITESPACE', 'NORMALIZE_REPR', 'DONT_ACCEPT_BLANKLINE']
E2E_BASE = {'ELLIPSIS': True, 'NORMALIZE_WHITESPACE': True, 'IGNORE_WHITESPACE': False, 'NORMALIZE_REPR': True, 'DONT_ACCEPT_BLANKLINE': False}
E2E_VALPOOL = [('a  b', "'a b'"), ('abcdef', "'abc...'"), ('abc', 'abc'), ('a b', "'a b'"), ('a b', "'ab'"), ('x', "'y'"),
               ('a-x-b', "'a...b'"), ('a\n\nb', "'a\\n\\nb'"), ('a b', "'a  b'"), ('q', '"q"')]


def _e2e_multi_case(rng, dir_names=None):
    """returns (text, defaults, stmts) ; stmts: list of {'cands': [...], 'want': str, 'flags': {...}}"""
    defaults = rng.choice([{}, {}, {'IGNORE_WHITESPACE': False}, {rng.choice(E2E_NAMES): rng.random() < 0.5},
                           {rng.choice(E2E_NAMES): rng.random() < 0.5, rng.choice(E2E_NAMES): rng.random() < 0.5}])
    dir_names = dir_names or E2E_NAMES
    cur = dict(E2E_BASE)
    cur.update(defaults)
    lines = []
    stmts = []
    for k in range(rng.randint(1, 4)):
        if rng.random() < 0.35:
            flag = rng.choice(dir_names)
            val = rng.random() < 0.5
            lines.append('>>> # xdoctest: %s%s' % ('+' if val else '-', flag))
            cur[flag] = val
        loc = dict(cur)
        inline = ''
        if rng.random() < 0.5:
            flag = rng.choice(dir_names)
            val = rng.random() < 0.5
            loc[flag] = val
            inline = '  # xdoctest: %s%s' % ('+' if val else '-', flag)
        kind = rng.choice(['print', 'print', 'value', 'both', 'mixedprint', 'mixedvalue', 'mixedboth'])
        cont = rng.choice(['>>> ', '... '])
        # (distribution only) most statements should pass under their flags, so that later statements are reached
        prefer_pass = rng.random() < 0.75
        for _attempt in range(6):
            if kind in ('print', 'mixedprint'):
                got, want = rng.choice(E2E_POOL)
                cands = [got + '\n']
                expr = 'print(%r' % got
            elif kind in ('value', 'mixedvalue'):
                v, want = rng.choice(E2E_VALPOOL)
                cands = [repr(v)]
                expr = 'str(%r' % v
            else:
                v, want = rng.choice(E2E_VALPOOL + [(g, w) for g, w in E2E_POOL])
                noise = rng.choice(['unrelated', 'zz top'])
                cands = [noise + '\n', repr(v)]
                expr = '(print(%r) or %r' % (noise, v)
            if not prefer_pass or any(checker_spec.check_output(c, want, **loc) for c in cands):
                break
        if kind in ('mixedvalue', 'mixedboth'):
            # an old-style (`...`) continuation directly followed by a want is compiled in 'single' mode, which echoes
            # the value to stdout (REPL semantics, property C20); value-carrying statements keep the all-`>>>` style
            cont = '>>> '
        if kind.startswith('mixed'):
            where = rng.choice([0, 2])
            src = ['>>> ' + expr + (inline if where == 0 else ''), cont + '    # a remark inside the brackets',
                   cont + ')' + (inline if where == 2 else '')]
        else:
            src = ['>>> ' + expr + ')' + inline]
        first = len(lines)
        lines.extend(src)
        lines.extend(want.split('\n'))
        stmts.append({'cands': cands, 'want': want, 'flags': loc, 'lines': [first, len(lines)]})
    return '\n'.join(lines) + '\n', defaults, stmts


def _e2e_multi_real(text, defaults, stmts=()):
    import warnings as _w
    from xdoctest import core
    with _w.catch_warnings():
        _w.simplefilter('ignore')
        exs = list(core.parse_docstr_examples(text, callname='t', style='freeform', fpath='<verif>', lineno=1))
    if not exs:
        return 'noexample'
    ex = exs[0]
    ex.mode = 'native'
    ex.config['default_runtime_state'] = dict(defaults)
    try:
        summary = ex.run(on_error='return', verbose=0)
    except Exception as e:
        return 'E:' + type(e).__name__
    if not summary['failed']:
        return 'pass'
    try:
        off = ex.failed_part.line_offset
        for idx, st in enumerate(stmts):
            if st['lines'][0] <= off < st['lines'][1]:
                return 'fail@%d' % idx
        return 'fail@line%d' % off
    except Exception:
        return 'fail@?'


def e2e_multi(ctx, corr, count=None, dir_names=None):
    rng = ctx.sub_rng('e2e_multi' + ''.join(dir_names or []))
    cases = [_e2e_multi_case(rng, dir_names) for _ in range(count or (400 if ctx.quick else 6000))]
    lines = []
    for text, defaults, stmts in cases:
        for st in stmts:
            for c in st['cands']:
                lines.append('check_output\t%s\t%s\t%s' % (''.join('1' if st['flags'][k] else '0' for k in E2E_NAMES), enc(c), enc(st['want'])))
    model = iter(driver.run_lines(lines))
    for text, defaults, stmts in cases:
        m = 'pass'
        for idx, st in enumerate(stmts):
            ok = [next(model) == '1' for _ in st['cands']]
            if not any(ok) and m == 'pass':
                m = 'fail@%d' % idx
        r = _e2e_multi_real(text, defaults, stmts)
        corr.count('e2e:multi')
        corr.nontriv(('e2em', text, repr(sorted(defaults.items()))))
        corr.tag('e2e:multi:' + r.split('@')[0])
        if r != m:
            corr.disagree('e2e:multi', {'text': text, 'default_runtime_state': defaults, 'stmts': stmts}, m, r)


def _e2e_multi_spec(stmts):
    for idx, st in enumerate(stmts):
        if not any(checker_spec.check_output(c, st['want'], **st['flags']) for c in st['cands']):
            return 'fail@%d' % idx
    return 'pass'


def e2e_multi_hits(corr):
    hits = []
    for d in corr.disagreements:
        if d['suite'] != 'e2e:multi' or len(hits) >= 3:
            continue
        i = d['input']
        try:
            exp = _e2e_multi_spec(i['stmts'])
        except Exception:
            continue
        if d['impl'] != exp:
            hits.append({'kind': 'e2e_multi', 'suite': d['suite'], 'input': i, 'expected': exp, 'impl': d['impl'],
                         'why': 'statement by statement, with the flags that the default options, the block directives so far and the '
                                "statement's own inline directive select, the documented relation (want vs printed text, or vs the repr of the value) gives %s; the doctest ended %s" % (exp, d['impl'])})
    return hits


def part_check_hits(corr):
    from . import C02 as _c02
    found = []
    for d in corr.disagreements:
        if d['suite'] != 'part_check' or len(found) >= 3:
            continue
        inp = d['input']
        try:
            exp = _c02._spec_part_check(inp)
            if exp is None:
                continue
            real = _c02._real_part_check(inp)
        except Exception:
            continue
        if real != exp:
            found.append({'kind': 'part_check', 'suite': 'part_check', 'input': inp, 'expected': exp, 'impl': real,
                          'why': 'DoctestPart.check says %s; by the documented relation under the flags given (some trailing portion of the '
                                 'output or the value repr must match the want) it is %s' % (real, exp)})
    return found


def replay_e2e_multi(failing):
    i = failing['input']
    r = _e2e_multi_real(i['text'], i['default_runtime_state'], i['stmts'])
    print(i['text'])
    print('default options %r -> %s, expected %s' % (i['default_runtime_state'], r, failing['expected']))
    return r != failing['expected']


# ---- the relation does not depend on the process environment
ENV_VARIANTS = [{'NO_COLOR': '1'}, {'NO_COLOR': '1', 'FORCE_COLOR': '1'}, {'TERM': 'dumb'}, {'LC_ALL': 'C', 'LANG': 'C'},
                {'PYTHONOPTIMIZE': '1'}, {'PYTHONIOENCODING': 'latin-1', 'PYTHONUTF8': '0'}, {'XDOCTEST_VERBOSE': '3', 'COLUMNS': '20'},
                {'XDOCTEST_COLORED': '1', 'CLICOLOR_FORCE': '1'}]
ENV_PAIRS = [('\x1b[31mred\x1b[0m', 'red'), ('red', '\x1b[1mred\x1b[0m'), ('\x9b31mred\x9b0m', 'red'), ('a  b', 'a b'), ('abc', 'a...'),
             ("u'a'", "'a'"), ('a\n\nb', 'a\n<BLANKLINE>\nb'), ('x', 'y'), ("'a'", 'a'), ('a \nb', 'a\nb'), ('\x1b[2Kitem\x1b[1A', 'item')]
_ENV_CHILD = ('import sys, json\nsys.dont_write_bytecode = True\nfrom xdoctest import checker, directive\n'
              'req = json.loads(sys.stdin.read())\nout = []\n'
              'for got, want, fl in req:\n'
              '    try:\n        out.append(bool(checker.check_output(got, want, directive.RuntimeState(fl))))\n'
              '    except Exception as e:\n        out.append("raise:" + type(e).__name__)\n'
              'print(json.dumps(out))\n')


def _env_child(env_extra, reqs):
    import json
    import os
    import subprocess
    import sys
    from .. import paths
    env = dict(os.environ)
    for k in ('NO_COLOR', 'FORCE_COLOR', 'CLICOLOR_FORCE'):
        env.pop(k, None)
    env.update(env_extra)
    env['PYTHONPATH'] = os.path.join(paths.repo_root(), 'src')
    p = subprocess.run([sys.executable, '-c', _ENV_CHILD], input=json.dumps(reqs).encode(), stdout=subprocess.PIPE,
                       stderr=subprocess.PIPE, env=env, timeout=300)
    try:
        return json.loads(p.stdout.decode().strip().splitlines()[-1])
    except Exception:
        return ['child-error: ' + p.stderr.decode()[-200:]] * len(reqs)


def env_suite(ctx, corr):
    """check_output is a function of (got, want, flags): the same requests answered by a fresh interpreter started under several
    environments (colour switches, locale, -O, io encoding, xdoctest's own variables) must give what this process gives"""
    from xdoctest import checker, directive
    reqs = []
    for got, want in ENV_PAIRS:
        for n in (0, 31, 26, 16, 8):
            reqs.append([got, want, flagset(n)])
    here = []
    for got, want, fl in reqs:
        try:
            here.append(bool(checker.check_output(got, want, directive.RuntimeState(fl))))
        except Exception as e:
            here.append('raise:' + type(e).__name__)
    for env_extra in ENV_VARIANTS:
        there = _env_child(env_extra, reqs)
        for (got, want, fl), a, b in zip(reqs, here, there):
            corr.count('env')
            if a != b:
                corr.expect_fail('env', {'env': env_extra, 'got': got, 'want': want, 'flags': fl}, a, b,
                                 'check_output in a fresh interpreter started with this environment differs from the same call without it')
        corr.nontriv(('env', repr(sorted(env_extra.items()))))
        corr.tag('env:' + ','.join(sorted(env_extra)))


def env_hits(corr):
    hits = []
    for e in corr.expect_failures:
        if e['suite'] == 'env' and len(hits) < 2:
            i = e['input']
            exp = bool(checker_spec.check_output(i['got'], i['want'], **i['flags']))
            hits.append({'kind': 'env', 'suite': 'env', 'input': i, 'expected': exp, 'impl': e['impl'],
                         'why': 'with %r in the environment check_output(got, want, flags) gives %r; the documented relation gives %r' % (i['env'], e['impl'], exp)})
    return hits


def replay_env(failing):
    i = failing['input']
    r = _env_child(i['env'], [[i['got'], i['want'], i['flags']]])[0]
    print('environment %r: check_output(%r, %r, %r) -> %r, expected %r' % (i['env'], i['got'], i['want'], i['flags'], r, failing['expected']))
    return r != failing['expected']


def stateful_failure(got, want, flags_then):
    """independent oracle for the stateful suite: is check_output a function of (got, want, current flags)? looks for a
    flag setting `first` such that checking the pair under `first` and then, on the SAME RuntimeState object, under
    `flags_then` gives another verdict than a fresh object with `flags_then`"""
    from xdoctest import checker, directive
    fresh = bool(checker.check_output(got, want, directive.RuntimeState(dict(flags_then))))
    for n in range(32):
        rs = directive.RuntimeState()
        for k, v in flagset(n).items():
            rs[k] = v
        checker.check_output(got, want, rs)
        for k, v in flags_then.items():
            rs[k] = v
        again = bool(checker.check_output(got, want, rs))
        if again != fresh:
            return {'kind': 'stateful', 'got': got, 'want': want, 'first_flags': flagset(n), 'then_flags': dict(flags_then),
                    'observed': 'verdict %s after an earlier check of the same pair under first_flags' % again,
                    'expected_by_spec': 'verdict %s (what a fresh RuntimeState with then_flags gives): the relation depends on the texts and the enabled flags only' % fresh}
    return None


def stateful_hits(corr):
    hits = []
    for d in corr.disagreements:
        if d['suite'] != 'check_output:stateful':
            continue
        i = d['input']
        try:
            f = stateful_failure(i['got'], i['want'], i['flags'])
        except Exception:
            f = None
        if f:
            hits.append({'kind': 'stateful', 'suite': 'check_output:stateful', 'input': f, 'expected': f['expected_by_spec'], 'impl': f['observed'],
                         'why': 'check_output is not a function of (got, want, flags): ' + f['observed']})
            if len(hits) >= 3:
                break
    return hits


def replay_stateful(failing):
    i = failing['input']
    f = stateful_failure(i['got'], i['want'], i['then_flags'])
    print('got=%r want=%r first_flags=%r then_flags=%r -> %s' % (i['got'], i['want'], i['first_flags'], i['then_flags'],
                                                                 f['observed'] if f else 'same verdict as a fresh state'))
    return f is not None


def correspondence(ctx, corr):
    import xdoctest  # noqa
    tables.check(corr, {'isspace', 'linebreak', 'word', 'csi'})
    # default flags as seen by the model (regenerated table) vs RuntimeState()
    from xdoctest import directive
    rs = directive.RuntimeState()
    m = driver.ask('default_flags')
    r = ''.join('1' if rs[k] else '0' for k in FLAG_NAMES + ['IGNORE_EXCEPTION_DETAIL'])
    corr.count('default_flags')
    if m != r:
        corr.disagree('default_flags', {}, m, r)
    stateful_reuse(ctx, corr)
    e2e_inline(ctx, corr)
    e2e_multi(ctx, corr)
    env_suite(ctx, corr)
    from . import C02 as _c02
    _c02.part_check_suite(ctx, corr, quick_n=2500, full_n=30000)
    # exhaustive token strings
    if ctx.quick:
        plans = [(TOKENS, 2, 32)]
    else:
        plans = [(TOKENS, 2, 32),
                 (['a', "'", ' ', '\n', '.', '...', '<BLANKLINE>'], 3, 64),
                 (['u', "'", '"', 'r', ' ', '\t', '\r', '\n'], 3, 64),
                 (['a', '\x1b[', '0', 'm', ' ', '\x9b', '...'], 3, 64)]
    for tokens, maxlen, nshards in plans:
        res = par.pmap(_shard_tokens, [(tokens, maxlen, s, nshards) for s in range(nshards)])
        for a, b, c, d in res:
            corr.count('tokens%d<=%d' % (len(tokens), maxlen), a)
            corr.nontrivial_extra += b
            for k, v in c.items():
                corr.tag(k, v)
            for suite, inp, mv, iv in d:
                corr.disagree(suite, inp, mv, iv)
    corr.exhaustive = True
    corr.sample({'op': 'check_output_all', 'got': "u'a'", 'want': "'a'", 'note': 'one of the exhaustive token pairs; all 32 flag settings'})
    per = 1500 if ctx.quick else 20000
    res = par.pmap(_shard_random, [(ctx.seed, s, per) for s in range(16)])
    for a, keys, c, d, sm in res:
        corr.count('random-mutations', a)
        corr.nontrivial |= keys
        for k, v in c.items():
            corr.tag('random:' + k, v)
        for suite, inp, mv, iv in d:
            corr.disagree(suite, inp, mv, iv)
        for g, w in sm[:1]:
            corr.sample({'op': 'check_output_all+normalize_all', 'got': g, 'want': w})
    # unit ops for each regex step
    rng = ctx.sub_rng('unit')
    strs = token_strings(TOKENS, 2) + [gen_pair(rng)[1] for _ in range(3000 if ctx.quick else 30000)]
    for op, f in UNIT_OPS:
        model = driver.run_lines(['%s\t%s' % (op, enc(s)) for s in strs])
        for s, m in zip(strs, model):
            corr.count('unit:' + op)
            r = f(s)
            if dec(m) != r:
                corr.disagree('unit:' + op, {'text': s}, dec(m), r)


# ------------------------------------------------------------------ search (independent oracle + laws)
def impl_check(got, want, fl):
    from xdoctest import checker, directive
    try:
        return bool(checker.check_output(got, want, directive.RuntimeState(fl)))
    except Exception as ex:
        return 'raise:' + type(ex).__name__


def nonspace(s):
    return ''.join(c for c in s if not c.isspace())


def law_failures(got, want):
    """evaluate the property's sentences directly on the implementation; yields descriptions"""
    res = {n: impl_check(got, want, flagset(n)) for n in range(32)}
    # (1) exactly the documented relation
    for n in range(32):
        fl = flagset(n)
        o = checker_spec.check_output(got, want, **fl)
        if res[n] != o:
            yield {'law': 'documented-relation', 'flags': fl, 'observed': res[n], 'expected_by_spec': o}
            return
    # (2) identical texts always match
    if got == want and not all(v is True for v in res.values()):
        yield {'law': 'identical-texts-match', 'observed': res}
    # (3) strict: exact up to trailing whitespace (and the always-on removals)
    strict = flagset(1)
    exp = (not want) or got == want or checker_spec.base(got, False) == checker_spec.base(want, False)
    if res[1] != exp:
        yield {'law': 'strict-is-exact', 'flags': strict, 'observed': res[1], 'expected_by_spec': exp}
    # (4) monotone in every leniency
    for n in range(32):
        for bit, name in ((4, 'ELLIPSIS'), (3, 'NORMALIZE_WHITESPACE'), (2, 'IGNORE_WHITESPACE'), (1, 'NORMALIZE_REPR')):
            if not (n >> bit) & 1 and res[n] is True and res[n | (1 << bit)] is not True:
                yield {'law': 'monotone', 'switch': name, 'flags_before': flagset(n), 'observed': 'match -> mismatch'}
        if (n & 1) and res[n] is True and res[n & ~1] is not True:
            yield {'law': 'monotone', 'switch': 'ACCEPT_BLANKLINE', 'flags_before': flagset(n), 'observed': 'match -> mismatch'}
    # (5) different non-whitespace content without wildcards never matches
    for n in range(32):
        fl = flagset(n)
        if res[n] is True and want and got != want:
            g = checker_spec.base(got, False)
            w = checker_spec.base(want, not fl['DONT_ACCEPT_BLANKLINE'])
            if fl['ELLIPSIS'] and '...' in checker_spec.ws_norm(w, fl['NORMALIZE_WHITESPACE'], fl['IGNORE_WHITESPACE']):
                continue
            a, b = nonspace(g), nonspace(w)
            cands_a = {a}
            cands_b = {b}
            if fl['NORMALIZE_REPR']:
                for q in '\'"':
                    if a[:1] == q and a[-1:] == q:
                        cands_a.add(a[1:-1])
                    if b[:1] == q and b[-1:] == q:
                        cands_b.add(b[1:-1])
            if not (cands_a & cands_b):
                yield {'law': 'content-preserved', 'flags': fl, 'observed': 'match with different non-whitespace content'}
                return


# ---- known findings: narrow predicates (DESIGN.md section 6)
def _mono_ok(got, want, n_before, bit_mask_on, bit_mask_off=0):
    a = impl_check(got, want, flagset(n_before))
    b = impl_check(got, want, flagset((n_before | bit_mask_on) & ~bit_mask_off))
    return not (a is True and b is not True)


def classify(ctx, hit):
    if hit.get('law') != 'monotone':
        return None
    got, want = hit['input']['got'], hit['input']['want']
    fb = hit['flags_before']
    n = sum((1 << b) for b, k in ((4, 'ELLIPSIS'), (3, 'NORMALIZE_WHITESPACE'), (2, 'IGNORE_WHITESPACE'), (1, 'NORMALIZE_REPR'),
                                  (0, 'DONT_ACCEPT_BLANKLINE')) if fb[k])
    sw = hit['switch']
    if sw in ('NORMALIZE_WHITESPACE', 'IGNORE_WHITESPACE') and fb['NORMALIZE_REPR']:
        bit = 3 if sw == 'NORMALIZE_WHITESPACE' else 2
        # K-C05-a: whitespace is normalised before the quotes are stripped; vanishes with NORMALIZE_REPR off
        if _mono_ok(got, want, n & ~2, 1 << bit):
            return 'K-C05-a'
    # K-C05-c: the got, read as a pattern, matches the quoted want (second norm_repr call); the dots
    # may only become adjacent after whitespace deletion ('. . .' under IGNORE_WHITESPACE), so the test
    # is made on the text without whitespace (exact guard: theorem mono_ellipsis_nr_guard_exact)
    if sw == 'ELLIPSIS' and fb['NORMALIZE_REPR'] and '...' in ''.join(got.split()):
        if _mono_ok(got, want, n & ~2, 1 << 4):
            return 'K-C05-c'
    if sw == 'ACCEPT_BLANKLINE':
        if '<BLANKLINE>' in checker_spec.strip_ansi(got) or '<BLANKLINE>' in got or \
                any(l.endswith('\r') for l in want.splitlines(True)):
            return 'K-C05-b'
    if sw == 'IGNORE_WHITESPACE' and fb['ELLIPSIS'] and not fb['NORMALIZE_REPR']:
        from .C06 import oracle_split
        w = checker_spec.base(want, not fb['DONT_ACCEPT_BLANKLINE'])
        c = ' '.join(w.split())
        d = nonspace(c)
        if oracle_split(d) != [nonspace(p) for p in oracle_split(c)]:
            return 'K-C05-d'
    if sw == 'NORMALIZE_REPR':
        return None
    return None


WITNESSES = {
    'K-C05-a': (" a", "' a'", {'ELLIPSIS': False, 'NORMALIZE_WHITESPACE': False, 'IGNORE_WHITESPACE': False, 'NORMALIZE_REPR': True, 'DONT_ACCEPT_BLANKLINE': False}, 'NORMALIZE_WHITESPACE'),
    'K-C05-b': (".", "<BLANKLINE>\r.", {'ELLIPSIS': False, 'NORMALIZE_WHITESPACE': False, 'IGNORE_WHITESPACE': False, 'NORMALIZE_REPR': False, 'DONT_ACCEPT_BLANKLINE': True}, 'ACCEPT_BLANKLINE'),
    'K-C05-c': ("\n\n...", "'...'", {'ELLIPSIS': False, 'NORMALIZE_WHITESPACE': False, 'IGNORE_WHITESPACE': True, 'NORMALIZE_REPR': True, 'DONT_ACCEPT_BLANKLINE': False}, 'ELLIPSIS'),
    'K-C05-d': ("\t...a", ".\t...", {'ELLIPSIS': True, 'NORMALIZE_WHITESPACE': True, 'IGNORE_WHITESPACE': False, 'NORMALIZE_REPR': False, 'DONT_ACCEPT_BLANKLINE': False}, 'IGNORE_WHITESPACE'),
}


def replay_finding(ctx, finding):
    w = WITNESSES.get(finding['id'])
    if not w:
        return False
    got, want, fl, sw = w
    after = dict(fl)
    if sw == 'ACCEPT_BLANKLINE':
        after['DONT_ACCEPT_BLANKLINE'] = False
    else:
        after[sw] = True
    return impl_check(got, want, fl) is True and impl_check(got, want, after) is False


def _fails(got, want):
    for f in law_failures(got, want):
        return f
    return None


def search(ctx, corr, broken):
    found = stateful_hits(corr) + e2e_hits(corr) + e2e_multi_hits(corr) + part_check_hits(corr) + env_hits(corr)
    cands = []
    for d in corr.disagreements:
        i = d['input']
        if 'got' in i:
            cands.append((i['got'], i['want']))
        elif 'text' in i:
            cands.append((i['text'], i['text'] + ' '))
            cands.append((i['text'], i['text']))
            cands.append(('x', i['text']))
    rng = ctx.sub_rng('search')
    strs = token_strings(TOKENS, 2)
    small = [(g, w) for g in strs for w in strs]
    rng.shuffle(small)
    cands.extend(small[:6000])
    cands.extend(gen_pair(rng) for _ in range(4000))
    seen = set()
    kinds = set()
    for g, w in cands:
        if (g, w) in seen:
            continue
        seen.add((g, w))
        for f in law_failures(g, w):
            hit = dict(f)
            hit['input'] = {'got': g, 'want': w}
            kid = classify(ctx, hit)
            key = (f.get('law'), f.get('switch'), kid)
            if key in kinds:
                continue
            kinds.add(key)
            if kid is None:
                law = f.get('law')
                sw = f.get('switch')

                def still(p):
                    for ff in law_failures(p[0], p[1]):
                        if ff.get('law') == law and ff.get('switch') == sw:
                            h2 = dict(ff)
                            h2['input'] = {'got': p[0], 'want': p[1]}
                            if classify(ctx, h2) is None:
                                return True
                    return False
                g2, w2 = shrink_strings((g, w), still, max_steps=300)
                for ff in law_failures(g2, w2):
                    if ff.get('law') == law and ff.get('switch') == sw:
                        hit = dict(ff)
                        hit['input'] = {'got': g2, 'want': w2}
                        if classify(ctx, hit) is None:
                            break
            found.append(hit)
        if len([h for h in found if classify(ctx, h) is None]) >= 3:
            break
    return found


def replay(ctx, failing):
    if failing.get('kind') == 'stateful':
        return replay_stateful(failing)
    if failing.get('kind') == 'e2e':
        return replay_e2e(failing)
    if failing.get('kind') == 'e2e_multi':
        return replay_e2e_multi(failing)
    if failing.get('kind') == 'env':
        return replay_env(failing)
    if failing.get('kind') == 'part_check':
        from . import C02 as _c02
        real = _c02._real_part_check(failing['input'])
        print('DoctestPart.check(%r) -> %s, expected %s' % (failing['input'], real, failing['expected']))
        return real != failing['expected']
    i = failing['input']
    fs = list(law_failures(i['got'], i['want']))
    fs = [f for f in fs if classify(ctx, dict(f, input=i)) is None]
    print('input: got=%r want=%r -> %s' % (i['got'], i['want'], fs[:2] or 'all sentences of the property hold'))
    return bool(fs)

"""C03 — Exceptions are never swallowed; only a matching expected traceback passes."""
from . import _runloop_common as common
from .. import driver
from ..codec import enc, dec_opt, dec

LEAN_TARGETS = ['XdocModel.Proofs.C03', 'XdocModel.Pins.Checker', 'XdocModel.Pins.Defaults']
MANIFEST = {
    'text': ("Full for the decision logic: five decision-table theorems over ALL texts and flag settings (no want -> fails with the "
             "exception; non-traceback want never hides it, whatever the flags incl. IGNORE_WANT; matching traceback want -> part ok and "
             "the loop goes on; mismatching -> got/want failure; traceback want on code that does not raise is a plain comparison), "
             "`expected_exception_iff` (with IGNORE_EXCEPTION_DETAIL only the bare names must agree, and the expected name must be "
             "non-empty), `stripDetails_spec`. The correspondence runs the full table exception kind x want form x position x flag "
             "settings through the real runner and compares with the model and with the table expected by construction; the regex model of "
             "_EXCEPTION_RE is pinned to the source text and compared on generated wants."),
    'note': ("Trusted: as C02; traceback.format_exception_only is outside the model (its last line is an oracle input); "
             "hand-written matcher for checker._EXCEPTION_RE (pinned)."),
    'technique': 'Lean 4 proof (case analysis of the decision function, list lemmas) + full decision-table correspondence',
}
RULE = ('exception kind (builtin raise, raise after print, raised in called code, empty message) x want form (none, exact, with stack lines, '
        'wrong message, wrong type, non-traceback text, ellipsis, dotted name, old header) x position (first/middle/last) x '
        'IGNORE_EXCEPTION_DETAIL x ELLIPSIS x IGNORE_WANT: the full table (864 cells) in return mode (and raise mode in thorough), '
        'random composite programs with one fault at a random place (family c09_random), traceback wants on non-raising code, and unit ops extract_exc_want / strip_details / check_exception on generated texts; '
        'non-trivial = a raising statement is present')
ASSUMPTIONS = ['the last line of traceback.format_exception_only is taken from the real run']


def _want_texts(rng, n):
    hdrs = ['Traceback (most recent call last):', 'Traceback (innermost last):', 'Traceback (most recent call last): ',
            'traceback (most recent call last):', 'Traceback (most recent call last):x', '  Traceback (most recent call last):']
    lasts = ['ValueError: m', 'a.b.KeyError: x: y', 'Val...', 'E', '  indented: x', '_x: 1', '9lives', ': colon', '']
    mids = ['', '    ...\n', '  File "x", line 1\n    foo\n', '\n\n', 'word at start\n']
    out = []
    for _ in range(n):
        parts = []
        if rng.random() < 0.2:
            parts.append(rng.choice(['prose\n', '\n', '    ']))
        parts.append(rng.choice(hdrs) + rng.choice(['\n', ' \n', '\t\n', '\n\n', '']))
        parts.append(rng.choice(mids))
        parts.append(rng.choice(lasts))
        if rng.random() < 0.3:
            parts.append('\n' + rng.choice(lasts))
        s = ''.join(parts)
        if rng.random() < 0.3:
            s = '\n'.join('    ' + l for l in s.split('\n'))
        out.append(s)
    return out


def correspondence(ctx, corr):
    common.run_family(ctx, corr, 'c03_table', {})
    if not ctx.quick:
        common.run_family(ctx, corr, 'c03_table', {'raise_mode': True})
    corr.exhaustive = True
    common.run_family(ctx, corr, 'c03_noraise', {'count': 4 if ctx.quick else 40})
    # random programs with one fault (every exception / traceback-want form among them) at a random place
    common.run_family(ctx, corr, 'c09_random', {'count': 40 if ctx.quick else 1500})
    module_level(ctx, corr)
    outcome_level(ctx, corr)
    from xdoctest import checker, directive
    rng = ctx.sub_rng('units')
    wants = _want_texts(rng, 1500 if ctx.quick else 20000)
    model = driver.run_lines(['exc_want\t' + enc(w) for w in wants])
    for w, m in zip(wants, model):
        r = checker.extract_exc_want(w)
        corr.count('extract_exc_want')
        corr.tag('exc_want:' + ('some' if r is not None else 'none'))
        if r is not None:
            corr.nontriv(('ew', w))
        if dec_opt(m) != r:
            corr.disagree('extract_exc_want', {'want': w}, dec_opt(m), r)
    msgs = ['ValueError: m', 'a.b.KeyError: x: y', 'Val...', 'E', 'a.b.\nc.d: e', ':x', 'x.y.z', 'foo.bar.MyError: la\nnext', '', 'a:b.c']
    model = driver.run_lines(['strip_details\t' + enc(s) for s in msgs])
    for s, m in zip(msgs, model):
        r = checker._strip_exception_details(s)
        corr.count('strip_details')
        if dec(m) != r:
            corr.disagree('strip_details', {'msg': s}, dec(m), r)
    # check_exception over flags
    gots = ['ValueError: m\n', 'KeyError: x\n', "a.b.Err: long message\n", 'TypeError\n']
    cases = []
    lines = []
    for _ in range(1200 if ctx.quick else 12000):
        g = rng.choice(gots)
        w = rng.choice(wants[:200])
        fl = {'ELLIPSIS': rng.random() < 0.5, 'NORMALIZE_WHITESPACE': True, 'IGNORE_WHITESPACE': False, 'NORMALIZE_REPR': True,
              'DONT_ACCEPT_BLANKLINE': False, 'IGNORE_EXCEPTION_DETAIL': rng.random() < 0.5}
        bits = ''.join('1' if fl[k] else '0' for k in ('ELLIPSIS', 'NORMALIZE_WHITESPACE', 'IGNORE_WHITESPACE', 'NORMALIZE_REPR',
                                                      'DONT_ACCEPT_BLANKLINE', 'IGNORE_EXCEPTION_DETAIL'))
        cases.append((g, w, fl))
        lines.append('check_exception\t%s\t%s\t%s' % (bits, enc(g), enc(w)))
    model = driver.run_lines(lines)
    for (g, w, fl), m in zip(cases, model):
        rs = directive.RuntimeState(fl)
        try:
            try:
                raise ValueError('active exception for the bare raise')
            except ValueError:
                checker.check_exception(g, w, rs)
            r = '1'
        except checker.GotWantException:
            r = '0'
        except ValueError:
            r = 'reraise'
        corr.count('check_exception')
        corr.tag('check_exception:' + r)
        if r != m:
            corr.disagree('check_exception', {'exc_got': g, 'want': w, 'flags': fl}, m, r)


MODULE_TEMPLATE = '''
def first():
    """
    Example:
        >>> # xdoctest: %s
        >>> print(1)
        1
    """


def second():
    """
    Example:
        >>> raise ValueError('the real message')
        Traceback (most recent call last):
            ...
        ValueError: %s
    """
'''


def module_level(ctx, corr):
    """two doctests of one module run by the native runner with user default options: a flag switched on by a block
    directive of the FIRST doctest (IGNORE_EXCEPTION_DETAIL, or the leniencies) must not decide how the expected
    exception of the SECOND is matched"""
    import contextlib
    import io
    import os
    import shutil
    import tempfile
    import warnings
    from xdoctest import runner
    d = tempfile.mkdtemp(prefix='xdocverif-')
    try:
        i = 0
        for first_directive in ('+IGNORE_EXCEPTION_DETAIL', '+SKIP', '-ELLIPSIS'):
            for want_msg, must_fail in (('a completely different message', True), ('the real message', False)):
                for defaults in ({}, {'IGNORE_WHITESPACE': False}, {'ELLIPSIS': True, 'NORMALIZE_REPR': True}):
                    i += 1
                    src = MODULE_TEMPLATE % (first_directive, want_msg)
                    path = os.path.join(d, 'c03mod_%d_%d.py' % (os.getpid(), i))
                    with open(path, 'w') as f:
                        f.write(src)
                    buf = io.StringIO()
                    inp = {'module_source': src, 'default_runtime_state': defaults}
                    try:
                        with contextlib.redirect_stdout(buf), warnings.catch_warnings():
                            warnings.simplefilter('ignore')
                            rs = runner.doctest_module(path, command='all', verbose=0, argv=[], analysis='static',
                                                       config={'default_runtime_state': dict(defaults)})
                        failed = sorted(e.callname for e in rs.get('failed', []))
                    except BaseException as e:  # noqa
                        failed = 'raised %r' % (e,)
                    corr.count('module-level')
                    corr.nontriv(('mod', first_directive, want_msg, repr(sorted(defaults.items()))))
                    exp = ['second'] if must_fail else []
                    if failed != exp:
                        corr.expect_fail('module-level', inp, {'failed': exp}, {'failed': failed},
                                         'the second doctest raises ValueError(the real message) against the want %r' % want_msg)
    finally:
        shutil.rmtree(d, ignore_errors=True)


OUTCOME_TEXTS = [
    ">>> import pytest\n>>> print(t(0))\n0\n>>> pytest.fail('boom %d' % t(1))\n>>> print(t(2))\n",
    ">>> import pytest\n>>> pytest.fail('boom %d' % t(0))\nsome text\n",
    ">>> import pytest\n>>> pytest.fail('boom %d' % t(0))\nTraceback (most recent call last):\n    ...\nValueError: other\n",
    ">>> import pytest\n>>> with pytest.raises(ValueError):\n...     x = t(0)\n>>> print(t(1))\n",
    ">>> import _pytest.outcomes\n>>> raise _pytest.outcomes.Failed('direct %d' % t(0))\n",
    ">>> import pytest\n>>> pytest.xfail('expected to fail %d' % t(0))\n>>> print(t(1))\n",
    ">>> raise GeneratorExit('g %d' % t(0))\n>>> print(t(1))\n",
]


def outcome_level(ctx, corr):
    """exceptions that do not derive from Exception (pytest's Failed / XFailed outcome classes, GeneratorExit): they
    may leave run() as they are, or be recorded as a failure, but the doctest must never be reported PASSED and the
    statements after the raising one must not run"""
    import warnings as _w
    from xdoctest import core
    from ..gen import doctests as gd
    for text in OUTCOME_TEXTS:
        for oe in ('return', 'raise'):
            for pm in (False, True):
                corr.count('outcome-exceptions')
                inp = {'text': text, 'run': {'on_error': oe, 'pytest_mode': pm}, 'outcome_exception': True}
                with _w.catch_warnings():
                    _w.simplefilter('ignore')
                    exs = list(core.parse_docstr_examples(text, callname='t', style='freeform', fpath='<verif>', lineno=1))
                ex = exs[0]
                ex.mode = 'pytest' if pm else 'native'
                ns, T = gd.make_namespace({})
                ex.global_namespace = ns
                try:
                    summary = ex.run(on_error=oe, verbose=0)
                    ended = 'returned passed=%s failed=%s' % (summary['passed'], summary['failed'])
                    bad = bool(summary['passed']) or not summary['failed']
                except BaseException as e:   # noqa
                    ended = 'raised ' + type(e).__name__
                    bad = type(e).__name__ == 'Skipped'
                corr.nontriv(('outcome', text, oe, pm))
                corr.tag('outcome:' + ended.split()[0])
                first_raising = [int(__import__('re').search(r't\((\d)\)', l).group(1)) for l in text.split('\n')
                                 if 't(' in l and ('fail(' in l or 'raise ' in l or 'x = t' in l)][0]
                later_ran = [k for k in T if k > first_raising]
                if bad or later_ran:
                    corr.expect_fail('outcome-exceptions', inp, 'not passed; nothing after the raising statement runs',
                                     {'ended': ended, 'TRACE': list(T)},
                                     'an exception raised by doctest code was swallowed (%s)' % ended)


def search(ctx, corr, broken):
    return common.search_families(ctx, corr, [('c03_table', {}), ('c03_noraise', {'count': 10}), ('c09_random', {'count': 100})])


def classify(ctx, hit):
    return None


def replay_finding(ctx, finding):
    return False


def replay(ctx, failing):
    if failing.get('input', {}).get('outcome_exception'):
        from ..core import Corr
        c2 = Corr()
        outcome_level(ctx, c2)
        bad = [e for e in c2.expect_failures if e['input'] == failing['input']]
        print(failing['input']['text'])
        print('now: %s' % (bad[0]['impl'] if bad else 'not reported passed'))
        return bool(bad)
    if 'module_source' in failing.get('input', {}):
        from ..core import Corr
        c2 = Corr()
        module_level(ctx, c2)
        bad = [e for e in c2.expect_failures if e['input'] == failing['input']]
        print(failing['input']['module_source'])
        print('default_runtime_state=%r -> %s' % (failing['input']['default_runtime_state'], bad[0]['impl'] if bad else 'as expected'))
        return bool(bad)
    return common.replay_scenario(failing)

"""C19 — The dump command emits valid Python holding every doctest statement in order."""
import ast
import contextlib
import io
import os
import random
import shutil
import tempfile
import warnings

from .. import driver, par
from ..codec import enc, enc_list, dec
from ..gen import programs as P

LEAN_TARGETS = ['XdocModel.Proofs.C19', 'XdocModel.Pins.Dump']
MANIFEST = {
    'text': ("Partial. Proved for ALL example lists with clean lines: `dump_one_function_per_example` (the lines of the dumped module that "
             "start a top-level statement are exactly the `def test_<mod>_<callname>():` lines, one per enabled example, in order), "
             "`dump_body_is_source` (a function's text is the def line followed by — each indented by exactly four blanks — the three docstring "
             "lines, the optional import line, then part after part the exec lines minus lines containing ' import *', each once, in order), "
             "`wants_are_comments_after_their_part` (a part's want follows its lines as `# doctest want:` and one `# ` comment per want line). "
             "NOT proved, only OBSERVED: that the emitted text is syntactically valid Python (no Python grammar in the model): every real dump "
             "is ast.parse'd AND compile()d and its statements are compared with the statements of the de-prompted program. Two input classes "
             "where the real dump is not equivalent are recorded as findings (K-C19-a multi-line string literal re-indented, K-C19-b top-level "
             "await in a plain def)."),
    'note': ("Trusted: Lean kernel/axioms as audited; hand-written model Dump.lean of runner._convert_to_test_module (global_exec=None), tied "
             "by this correspondence; the names pyflakes reports as undefined are an oracle input of the model (computed here with pyflakes "
             "directly, not through xdoctest); the parts fed to the model come from the real parser (modelled under C01/C13)."),
    'technique': 'Lean 4 proof (split/join/indent lemmas) + differential correspondence on generated modules + ast/compile oracle',
}
RULE = ('modules with 1..4 functions/methods whose docstrings come from the C01 program generator (26 statement kinds incl. star-imports, '
        'multi-line statements, decorators, triple-quoted strings, wants of several lines, comments, directives, top-level await) x prompt '
        'styles x indentation; dumped through runner.doctest_module(path, "dump") (stdout captured) and, in the thorough tier, the CLI; '
        'compared: model `dump` text vs real text; eagerly: the body of every function, by construction of the generator, must be the '
        "program's lines minus star-imports with the want comments after the statement that carries the want; ast.parse + compile must "
        'succeed; the statements (ast.dump) must equal those of the de-prompted program. non-trivial = a module with >1 doctest or a '
        'doctest with >1 part; distinct = distinct module text')
ASSUMPTIONS = ['global_exec is None (default)', 'validity of the emitted Python is observed with ast.parse/compile, not proved']


def default_layout(n):
    ents = []
    for i in range(n):
        if i % 3 == 2:
            ents.append({'kind': 'method', 'cls': 'K%d' % i, 'name': 'meth%d' % i, 'progs': [i]})
        else:
            ents.append({'kind': 'func', 'name': 'f%d' % i, 'progs': [i]})
    return {'style': 'freeform', 'entries': ents}


def module_text(progs, layout=None):
    """a module with one function (or method) per entry of the layout, whose docstring holds the entry's programs (one
    per `Example:` block when there are several); returns (text, callname of every doctest in order)"""
    layout = layout or default_layout(len(progs))
    out = ['import os', '', 'def deco(f):', '    return f', '']
    names = []
    for ent in layout['entries']:
        docs = []
        for pi in ent['progs']:
            doc, line_of, sf = progs[pi].render()
            docs.append(doc)
        doc = '\n'.join(docs)          # a blank line between two blocks
        pad = '        ' if ent['kind'] == 'func' else '            '
        body = ''.join((pad + l if l.strip() else '') + '\n' for l in doc.split('\n')[:-1])
        if ent['kind'] == 'method':
            out += ['class %s(object):' % ent['cls'], '    def %s(self):' % ent['name'], "        r'''", body.rstrip('\n'),
                    "        '''", '        return 1', '']
            callname = '%s.%s' % (ent['cls'], ent['name'])
        else:
            out += ['def %s(a=1):' % ent['name'], "    r'''", body.rstrip('\n'), "    '''", '    return a', '']
            callname = ent['name']
        names.extend([callname] * len(ent['progs']))
    return '\n'.join(out) + '\n', names


def real_dump(path, style='freeform'):
    from xdoctest import runner
    buf = io.StringIO()
    with warnings.catch_warnings():
        warnings.simplefilter('ignore')
        with contextlib.redirect_stdout(buf):
            runner.doctest_module(path, 'dump', style=style, verbose=0)
    t = buf.getvalue()
    return t[:-1] if t.endswith('\n') else t


def real_examples(path, style='freeform'):
    from xdoctest import core
    with warnings.catch_warnings():
        warnings.simplefilter('ignore')
        exs = list(core.parse_doctestables(path, style=style, analysis='static'))
    out = []
    for ex in exs:
        ex._parse()
        if ex.is_disabled():
            continue
        out.append(ex)
    return out


def undefined_names(body):
    """pyflakes, used directly (independent of xdoctest.runner.undefined_names)"""
    import pyflakes.api
    import pyflakes.reporter

    class Rep(pyflakes.reporter.Reporter):
        def __init__(self):
            self.messages = []

        def unexpectedError(self, filename, msg):
            pass

        def syntaxError(self, filename, msg, lineno, offset, text):
            pass

        def flake(self, message):
            self.messages.append(message)
    rep = Rep()
    pyflakes.api.check(body, '_.py', rep)
    return sorted(set(m.message_args[0] for m in rep.messages if type(m).__name__.endswith('UndefinedName')))


def model_line(exs, undefined):
    f = ['dump']
    for ex, und in zip(exs, undefined):
        f += [enc(ex.modname), enc(ex.callname), enc(ex.node), enc_list(und), str(len(ex._parts))]
        for p in ex._parts:
            f.append(enc_list(list(p.exec_lines)))
            f.append('N' if p.want_lines is None else enc_list(list(p.want_lines)))
    return '\t'.join(f)


def function_bodies(text):
    """split a dump into (def line, body lines without the 4-blank indent) by the top-level def lines"""
    funcs = []
    for l in text.split('\n'):
        if l.startswith('def '):
            funcs.append([l, []])
        elif funcs:
            funcs[-1][1].append(l[4:] if l.startswith('    ') else l)
    for f in funcs:
        while f[1] and f[1][-1] == '':
            f[1].pop()
    return funcs


def expected_body(prog):
    """by construction: the program's lines minus star-imports, want comments after the statement with the want"""
    out = []
    for s in prog.stmts:
        out.extend(l for l in s.exec_lines() if ' import *' not in l)
        if s.want is not None:
            out.append('# doctest want:')
            out.extend('# ' + w for w in s.want)
    return out


def _norm_consts(tree):
    for node in ast.walk(tree):
        if isinstance(node, ast.Constant) and isinstance(node.value, str):
            node.value = node.value.replace('\n    ', '\n')
    return tree


def problems(progs, names, modname, text):
    """independent oracle on a real dump: list of (class, message)"""
    out = []
    try:
        tree = ast.parse(text)
    except SyntaxError as e:
        return [('syntax', 'the dump is not valid Python: %s' % e)]
    try:
        compile(text, '<dump>', 'exec')
    except SyntaxError as e:
        # top-level asynchronous constructs (an await expression, an asynchronous comprehension) in a plain `def`: K-C19-b
        if ("'await' outside" in str(e) or 'asynchronous comprehension outside' in str(e)) and any(p.uses_await() for p in progs):
            out.append(('await-in-plain-def', 'the dump does not compile: %s' % e))
        else:
            out.append(('syntax', 'the dump does not compile: %s' % e))
    funcs = [n for n in tree.body]
    exp_names = ['test_' + modname.replace('.', '_') + '_' + n.replace('.', '_') for n in names]
    got_names = [getattr(n, 'name', type(n).__name__) for n in funcs]
    if got_names != exp_names or not all(isinstance(n, ast.FunctionDef) for n in funcs):
        out.append(('functions', 'top-level statements %r, expected one function per doctest: %r' % (got_names, exp_names)))
        return out
    bodies = function_bodies(text)
    for prog, fn, (defline, body) in zip(progs, funcs, bodies):
        hdr = 3
        if len(body) > 3 and body[3].startswith('from %s import ' % modname):
            hdr = 4
        # empty lines carry no statement: the explicit `...` terminator of a compound statement is an empty exec
        # line, which format_part's splitlines() drops when it ends a part
        eb = [l for l in expected_body(prog) if l != '']
        if [l for l in body[hdr:] if l != ''] != eb:
            out.append(('lines', '%s: body lines %r, expected %r' % (fn.name, body[hdr:], eb)))
            continue
        stmts = fn.body[1:]
        if stmts and isinstance(stmts[0], ast.ImportFrom) and stmts[0].module == modname:
            stmts = stmts[1:]
        src = '\n'.join(l for l in prog.program_lines if ' import *' not in l) + '\n'
        ref = ast.parse(src).body
        a = [ast.dump(x) for x in stmts]
        b = [ast.dump(x) for x in ref]
        if a != b:
            a2 = [ast.dump(_norm_consts(x)) for x in stmts]
            if a2 == b and any(s.kind in ('tripstr', 'tripbare', 'tripws') for s in prog.stmts):
                out.append(('string-indent', '%s: a multi-line string literal changed its value by the 4-column re-indentation' % fn.name))
            else:
                out.append(('statements', '%s: statements differ from the program: %r vs %r' % (fn.name, a, b)))
    return out


def star_program(rng):
    """two or three star-imports inside ONE part, at the start / in the middle / adjacent / at the end"""
    n = rng.randint(3, 6)
    pos = set(rng.sample(range(n), rng.choice([2, 2, 3])))
    stmts = [P.Stmt('starimport' if k in pos else rng.choice(['assign', 'print', 'expr', 'multi']), k, rng.choice(['new', 'old']))
             for k in range(n)]
    prog = P.Program(stmts, rng.choice(['', '    ']))
    P.place_wants(prog, rng, prob=0.15, layout=False)
    return prog


def gen_module(rng, quick):
    """returns (programs, layout)"""
    r = rng.random()
    mk = lambda: P.gen_program(rng, max_len=5 if quick else 8, allow_star=True, allow_await=(rng.random() < 0.3))
    if r < 0.2:
        # several doctests per callable: google style, one doctest per `Example:` block
        progs = []
        ents = []
        for i in range(rng.randint(1, 2)):
            idxs = []
            for _ in range(rng.randint(2, 3)):
                p = P.gen_program(rng, max_len=3, allow_await=False, allow_star=True, wants=False)
                p.indent, p.header = '    ', ['Example:']
                P.place_wants(p, rng, layout=False)
                for st in p.stmts:
                    if st.sep == 'prose':
                        st.sep = 'blank'
                idxs.append(len(progs))
                progs.append(p)
            ents.append({'kind': 'func', 'name': 'g%d' % i, 'progs': idxs})
        return progs, {'style': 'google', 'entries': ents}
    n = rng.randint(1, 4)
    progs = [star_program(rng) if rng.random() < 0.25 else mk() for _ in range(n)]
    layout = default_layout(n)
    if r < 0.4 and n >= 2:
        # two callables whose dumped function names collide: method K.run next to function K_run
        layout['entries'][0] = {'kind': 'method', 'cls': 'Gamma', 'name': 'run', 'progs': [0]}
        layout['entries'][n - 1] = {'kind': 'func', 'name': 'Gamma_run', 'progs': [n - 1]}
    return progs, layout


def check_module(progs, tmp, idx, layout=None):
    """returns (model text, real text, problems, module text, modname)"""
    layout = layout or default_layout(len(progs))
    style = layout['style']
    text, names = module_text(progs, layout)
    modname = 'dumpmod_%d' % idx
    path = os.path.join(tmp, modname + '.py')
    with open(path, 'w') as f:
        f.write(text)
    try:
        real = real_dump(path, style)
    except Exception as ex:
        return '', '', [('crash', 'the dump command raised %s: %s' % (type(ex).__name__, ex))], text, modname
    exs = real_examples(path, style)
    # STATEFUL: what the pytest plugin does with the same doctests (is_disabled(pytest=True)) in the same process,
    # and a second dump, must not change what the native dump emits for the unchanged module
    seq = []
    try:
        for ex in exs:
            ex.is_disabled(pytest=True)
        again = real_dump(path, style)
        if again != real:
            seq.append(('unstable', 'a second dump of the unchanged module (after is_disabled(pytest=True) was asked, as the '
                        'plugin does) differs from the first: %r vs %r' % (again[:300], real[:300])))
    except Exception as ex2:
        seq.append(('crash', 'the second dump raised %s: %s' % (type(ex2).__name__, ex2)))
    m0 = dec(driver.run_lines([model_line(exs, [[] for _ in exs])], jobs=1)[0])
    und = []
    for defline, body in function_bodies(m0):
        try:
            und.append(undefined_names('\n'.join(body)))
        except Exception:
            und.append([])
    und = (und + [[] for _ in exs])[:len(exs)]
    model = dec(driver.run_lines([model_line(exs, und)], jobs=1)[0]) if exs else ''
    return model, real, problems(progs, names, modname, real) + seq, text, modname


def _shard(args):
    seed, shard, count, quick = args
    rng = random.Random('c19:%d:%d' % (seed, shard))
    out = {'n': 0, 'nontrivial': set(), 'tags': {}, 'dis': [], 'exp': [], 'samples': []}
    tmp = tempfile.mkdtemp(prefix='xdocverif-')
    try:
        for i in range(count):
            progs, layout = gen_module(rng, quick)
            model, real, probs, text, modname = check_module(progs, tmp, shard * 100000 + i, layout)
            out['n'] += 1
            if len(progs) > 1:
                out['nontrivial'].add(hash(text))
            inp = {'module': text, 'programs': [p.describe() for p in progs], 'layout': layout}
            if model != real:
                out['dis'].append((inp, model[:700], real[:700]))
            for cls, msg in probs:
                out['tags'][cls] = out['tags'].get(cls, 0) + 1
                out['exp'].append((inp, 'valid Python with the statements of the program', {'class': cls}, msg[:800]))
            out['tags']['funcs:%d' % len(progs)] = out['tags'].get('funcs:%d' % len(progs), 0) + 1
            if not out['samples'] and len(progs) > 1:
                out['samples'].append({'module': text, 'dump': real})
    finally:
        shutil.rmtree(tmp, ignore_errors=True)
    # keep every class of problem visible, at most 4 each
    seen = {}
    keep = []
    for e in out['exp']:
        c = e[2]['class']
        seen[c] = seen.get(c, 0) + 1
        if seen[c] <= 4:
            keep.append(e)
    out['exp'] = keep
    out['dis'] = out['dis'][:10]
    return out


def _merge(corr, res):
    corr.count('dump', res['n'])
    corr.nontrivial |= res['nontrivial']
    for k, v in res['tags'].items():
        corr.tag(k, v)
    for inp, m, r in res['dis']:
        corr.disagree('dump', inp, m, r)
    for inp, e, i, why in res['exp']:
        corr.expect_fail('dump', inp, e, i, why)
    for s in res['samples'][:1]:
        corr.sample(s)


def _cli(ctx, corr):
    """the same through `python -m xdoctest <mod> dump`"""
    import subprocess
    import sys
    rng = ctx.sub_rng('cli')
    tmp = tempfile.mkdtemp(prefix='xdocverif-')
    try:
        for i in range(3 if ctx.quick else 25):
            progs, layout = gen_module(rng, True)
            if layout['style'] != 'freeform':
                continue
            text, names = module_text(progs, layout)
            path = os.path.join(tmp, 'climod_%d.py' % i)
            with open(path, 'w') as f:
                f.write(text)
            real = real_dump(path)
            proc = subprocess.run([sys.executable, '-m', 'xdoctest', path, 'dump', '--style=freeform', '--verbose=0'],
                                  stdout=subprocess.PIPE, stderr=subprocess.PIPE, cwd=tmp, timeout=120)
            cli = proc.stdout.decode('utf8')
            corr.count('dump-cli')
            if real not in cli:
                corr.disagree('dump-cli', {'module': text}, real[:500], cli[:500])
    finally:
        shutil.rmtree(tmp, ignore_errors=True)


def correspondence(ctx, corr):
    q = ctx.quick
    res = par.pmap(_shard, [(ctx.seed, s, 25 if q else 400, q) for s in range(16)])
    for r in res:
        _merge(corr, r)
    _cli(ctx, corr)


def search(ctx, corr, broken):
    c2 = type(corr)()
    res = par.pmap(_shard, [(ctx.seed + 3, s, 40, True) for s in range(16)])
    for r in res:
        _merge(c2, r)
    hits = [{'kind': 'expectation', 'suite': e['suite'], 'input': e['input'], 'expected': e['expected'], 'impl': e['impl'],
             'why': e['why']} for e in c2.expect_failures]
    hits.sort(key=lambda h: (h['impl'].get('class') in ('string-indent', 'await-in-plain-def'), len(repr(h['input']))))
    return hits[:8]


def _rebuild(inp):
    return [P.Program.from_desc(d) for d in inp['programs']]


def _problems_of_input(inp):
    progs = _rebuild(inp)
    tmp = tempfile.mkdtemp(prefix='xdocverif-')
    try:
        model, real, probs, text, modname = check_module(progs, tmp, 0, inp.get('layout'))
    finally:
        shutil.rmtree(tmp, ignore_errors=True)
    return real, probs


def classify(ctx, hit):
    """a hit is ONE problem (class) of one module; it is attributed to K-C19-a / K-C19-b only if that problem is of
    exactly that class when recomputed on the real dump (a multi-line string constant whose value differs only by the
    inserted indentation; the compile error \"'await' outside async function\" of a program that uses top-level
    await). Every other problem of the same module is a hit of its own and stays unlisted."""
    cls = (hit.get('impl') or {}).get('class')
    if cls not in ('string-indent', 'await-in-plain-def'):
        return None
    try:
        real, probs = _problems_of_input(hit['input'])
    except Exception:
        return None
    if cls not in set(c for c, _ in probs):
        return None
    return {'string-indent': 'K-C19-a', 'await-in-plain-def': 'K-C19-b'}[cls]


def _witness(kind):
    s = P.Stmt(kind, 0, 'old')
    s2 = P.Stmt('print', 1, 'new')
    s2.want = ['1']
    return {'programs': [P.Program([s, s2], '').describe()]}


def replay_finding(ctx, finding):
    if finding.get('id') == 'K-C19-a':
        return any(c == 'string-indent' for c, _ in _problems_of_input(_witness('tripstr'))[1])
    if finding.get('id') == 'K-C19-b':
        return any(c == 'await-in-plain-def' for c, _ in _problems_of_input(_witness('await'))[1])
    return False


def replay(ctx, failing):
    inp = failing['input']
    print('module:\n' + inp['module'])
    real, probs = _problems_of_input(inp)
    print('dump:\n' + real)
    for c, m in probs:
        print(' - [%s] %s' % (c, m))
    return bool(probs)

"""C11 — Runs are isolated: a doctest behaves the same whatever ran before it."""
import contextlib
import io
import random

from .. import driver, par
from ..corr import isolation as ci
from ..gen import isolation as gi

LEAN_TARGETS = ['XdocModel.Proofs.C11', 'XdocModel.Pins.Isolation', 'XdocModel.Pins.Defaults']
MANIFEST = {
    'text': ("Partial. Proved for ALL programs, requirement oracles, execution oracles (whose result depends only on the namespace "
             "they are given), worlds and histories (any order, repetition, subset) of the world model {runtime-state template, "
             "module dict, per-DocTest persisted fields}: `outcome_history_independent` (under on_error='return', native mode: outcome "
             "and logged output of doctest i after any two histories coincide, starting from empty namespaces and ARBITRARY other "
             "persisted fields), `other_doctests_never_matter` (any on_error: only a doctest's own earlier runs can matter), "
             "`names_invisible`, `namespace_cleared_after_return`, `module_globals_never_rebound`, `template_never_modified`, "
             "`runstate_fresh` (the directive state a run starts from is template + own config after ANY history). The residue is "
             "K-C11-a (witness `stale_names_after_raise`): a run that ends by propagating keeps its namespace, a re-run of the same "
             "object sees stale names. Observed, not proved: that executing doctest code depends on nothing but the namespace "
             "(replaced sys.stdout, changed warning filters: covered by the brackets of C12 and by the correspondence here), and "
             "mutation of shared mutable module objects (outside the property). Tie to the code: op `history` (the model run on the "
             "real partition into parts, a mini language of name effects) vs real DocTest objects of generated modules run in "
             "generated histories, directly and through runner.doctest_module, and each step against the same doctest run alone in a "
             "forked child that never imported the module; source texts of the reset block, RuntimeState.__init__, _test_globals "
             "and the tail of run are pinned."),
    'note': ("Trusted: as C02 (run-loop model reused); exec/eval of doctest code is an oracle depending on the namespace only; dicts "
             "are association lists, values opaque ids; config['global_exec'] is None; BaseExceptions raised by doctest code are "
             "outside the world model (see C12); the hypothesis 'every raised exception has a doctest frame' is the one of C09."),
    'technique': 'Lean 4 proof (invariants over histories, congruence of runDoc) + differential correspondence on generated modules and histories',
}
RULE = ('generated modules (2-4 doctests; statements: bind/print/increment/probe of clashing local names a b c and of the module '
        'globals G H, reads of names only other doctests bind, replaced sys.stdout, warnings.warn, raise, ExitTestException; wants: '
        'correct / wrong / matched through trailing output / matching only a stale unmatched buffer; block and inline directives; '
        'SKIP, REQUIRES(unmet), -REPORT_x, simplefilter("error") or a replaced sys.stdout left on at the end) x histories of 1..8 '
        'steps (any order, repetition, subset; 25% of the cases also use on_error="raise"; 40% run with a non-empty '
        'config default_runtime_state — booleans and/or a REQUIRES set, ONE dict shared by all runs as the runner does — which must '
        'come back unmodified): record of every step (ending, '
        'passed/failed/skipped, failure kind/part/line, skipped and executed parts, logged stdout per part, start run state, '
        'persisted namespace, module globals, REQUIRES set of DEFAULT_RUNTIME_STATE) compared with the model AND with the doctest run '
        'alone in a fresh process; the same modules twice through runner.doctest_module; REQUIRES(module:…) directives (block, inline, '
        'negative) over a package generated per case with existing and missing submodules and a missing package, in every order of '
        'first lookup (process-wide _MODNAME_EXISTS_CACHE); TEXT FILES through the pytest plugin (one pytest subprocess per batch, '
        '--xdoctest-glob, google style: several Example blocks per file in generated orders/repetitions, each doctest compared with '
        'the same block alone in its own file). non-trivial = history of >= 2 steps; '
        'distinct = distinct (module source, history)')
ASSUMPTIONS = ['executing doctest code depends only on the namespace it is given (validated by the fresh-process oracle on every step)',
               'exceptions raised by exec/eval of a part always have a traceback frame of the doctest']

K_C11_A = {'docs': [[{'kind': 'probe', 'args': ['a'], 'want': None, 'inline': None},
                     {'kind': 'bind', 'args': ['a', 1], 'want': None, 'inline': None},
                     {'kind': 'fail', 'args': [], 'want': None, 'inline': None}]],
           'history': [[0, 'e'], [0, 'r']], 'mode': 'direct'}


K_C11_B_SOURCE = ('def f0():\n    """\n    Example:\n        >>> # xdoctest: +REQUIRES(--xdocverif-unmet-a)\n        >>> print(1)\n    """\n\n'
                  'def f1():\n    """\n    Example:\n        >>> print(2)\n        2\n    """\n')


def shared_config_set(tmpdir):
    """regression input of the former finding K-C11-b (repaired by 405bdaf): a REQUIRES *set* given through
    config['default_runtime_state'] was shared by reference by every doctest of the module run; returns a hit
    when that happens again"""
    import os
    from xdoctest import runner
    p = os.path.join(tmpdir, 'xv11b_%d.py' % os.getpid())
    with open(p, 'w') as f:
        f.write(K_C11_B_SOURCE)
    shared = {'REQUIRES': set()}
    buf = io.StringIO()
    with ci.ProcState(), contextlib.redirect_stdout(buf):
        r = runner.doctest_module(p, command='all', argv=[''], verbose=0, config={'default_runtime_state': shared})
    import sys
    sys.modules.pop('xv11b_%d' % os.getpid(), None)
    leaked = sorted(shared['REQUIRES'])
    if leaked or r.get('n_passed') != 1:
        return {'kind': 'shared-config-set', 'input': {'module': K_C11_B_SOURCE, 'config': "{'default_runtime_state': {'REQUIRES': set()}}"},
                'failure': {'what': 'an unmet REQUIRES of the first doctest carries over to the second through the shared config set',
                            'observed': 'n_passed=%r n_skipped=%r set=%r' % (r.get('n_passed'), r.get('n_skipped'), leaked),
                            'expected': 'n_passed=1 n_skipped=1 set=[]'}}
    return None


def _propagated(rec):
    e = rec.split(' ', 1)[0]
    return e.startswith('raised') or e.startswith('propagated') or e == 'escaped'


def _strip_ending(outcome):
    return outcome.split(' ', 1)[1]


def check_case(docs, history, mode, tmpdir, want_model=False, unrestricted=False, defaults=None):
    """run the history on the real code and apply the independent oracle.
    returns dict(failures=[...], records=[...], model_line=..., nparts_ok=bool)"""
    case = ci.Case(docs, tmpdir)
    res = {'failures': [], 'records': [], 'model_line': None, 'source': case.source}
    history = [(int(i), oe) for i, oe in history]
    # the oracle first: every doctest alone, in children forked BEFORE the history runs, so that they inherit nothing
    # the history may leave in this process (the names of a case were never seen by the process before)
    alone = {}
    for i in (range(len(docs)) if mode == 'runner' else sorted(set(i for i, _ in history))):
        alone[i] = ci.run_alone(case, i, defaults)
    if mode == 'runner':
        seen, errors, cfgs = ci.run_module_runner(case, times=2, defaults=defaults)
        recs = [r for _, r in seen]
        n = len(docs)
        steps = [(int(name[1:]), 'r') for name, _ in seen]
        if errors:
            res['failures'].append({'what': 'runner.doctest_module raised', 'observed': errors[:2]})
        if [i for i, _ in steps] != list(range(n)) * 2:
            res['failures'].append({'what': 'runner did not run every doctest once per call, in file order',
                                    'observed': [i for i, _ in steps], 'expected': list(range(n)) * 2})
        history = steps
        exs = case.parse()
    else:
        exs, recs, cfgs = ci.run_history(case, history, defaults)
    res['records'] = recs
    if cfgs[0] != cfgs[1]:
        res['failures'].append({'what': "the caller's config['default_runtime_state'] was modified by the runs", 'observed': cfgs[1],
                                'expected': cfgs[0]})
    res['history'] = history
    if want_model:
        res['model_line'] = ci.model_line(case, exs, history, defaults)
    stale = set()      # objects whose last run ended by propagating (K-C11-a predicate) — direct mode only
    mod0 = 'mod=' + ci._fmt_ns(dict(gi.MODGLOBALS))
    for k, ((i, oe), rec) in enumerate(zip(history, recs)):
        fields = rec.split(' ')
        if i not in alone:
            alone[i] = ci.run_alone(case, i, defaults)
        exp = alone[i]
        applies = unrestricted or (i not in stale) or mode == 'runner'
        got_o, exp_o = ci.outcome_of(rec), ci.outcome_of(exp)
        if oe == 'e':
            got_o, exp_o = _strip_ending(got_o), _strip_ending(exp_o)
        if got_o != exp_o:
            f = {'step': k, 'doc': i, 'what': 'outcome / captured output differs from the same doctest run alone in a fresh process',
                 'observed': got_o, 'expected': exp_o, 'after_propagating_run_of_same_object': i in stale}
            if applies:
                res['failures'].append(f)
        if mod0 not in fields:
            res['failures'].append({'step': k, 'doc': i, 'what': 'globals of the module under test were rebound',
                                    'observed': [x for x in fields if x.startswith('mod=')], 'expected': mod0})
        if 'tmpl=~' not in fields:
            res['failures'].append({'step': k, 'doc': i, 'what': 'DEFAULT_RUNTIME_STATE was modified',
                                    'observed': [x for x in fields if x.startswith('tmpl=')], 'expected': 'tmpl=~'})
        if fields[0] == 'returned' and 'ns=~' not in fields:
            res['failures'].append({'step': k, 'doc': i, 'what': 'names survive a returning run in global_namespace',
                                    'observed': [x for x in fields if x.startswith('ns=')], 'expected': 'ns=~'})
        if mode != 'runner':
            if _propagated(rec):
                stale.add(i)
            else:
                stale.discard(i)
    return res


def _gen_text(rng):
    docs = [gi.gen_text_doc(rng, k) for k in range(rng.randint(2, 4))]
    order = [rng.randrange(len(docs)) for _ in range(rng.randint(2, 6))]
    return docs, order


def _text_hit(docs, order, d, tag):
    """oracle on one text-file input (two pytest subprocesses); a shrunk hit or None"""
    r = ci.check_textfiles([(docs, order)], d, tag)[0]
    if not r['failures']:
        return None
    cur = list(order)
    n = 0
    changed = True
    while changed and len(cur) > 1 and n < 6:
        changed = False
        for k in range(len(cur) - 1, -1, -1):
            c2 = cur[:k] + cur[k + 1:]
            n += 1
            r2 = ci.check_textfiles([(docs, c2)], d, '%s_s%d' % (tag, n))[0]
            if r2['failures']:
                cur, r, changed = c2, r2, True
                break
    return {'kind': 'textfile', 'input': {'docs': docs, 'order': cur, 'mode': 'textfile'}, 'text_file': r['text'],
            'failure': r['failures'][0], 'records': r['records']}


def _gen(rng, quick):
    docs = gi.gen_case(rng)
    rp = 0.3 if rng.random() < 0.25 else 0.0
    history = gi.gen_history(rng, len(docs), maxlen=8, raise_prob=rp)
    return docs, history, gi.gen_defaults(rng)


TEXT_SHARDS = 4


def _shard(args):
    seed, shard, count, runner_count = args
    if shard >= 100:
        # text files through the pytest plugin: expectation only (each doctest vs the same doctest alone in its own file)
        rng = random.Random('c11t:%d:%d' % (seed, shard))
        out = {'n': 0, 'nontriv': set(), 'tags': {}, 'dis': [], 'exp': [], 'samples': [], 'unknown': 0}
        cases = [_gen_text(rng) for _ in range(count)]
        with ci.scratch() as d:
            res = ci.check_textfiles(cases, d, 'tb%d' % shard)
        for (docs, order), r in zip(cases, res):
            out['n'] += len(r['records'])
            out['nontriv'].add(hash(r['text']))
            for rec in r['records']:
                t = 'textfile:' + rec.split(' ', 1)[0]
                out['tags'][t] = out['tags'].get(t, 0) + 1
            for f in r['failures']:
                out['exp'].append({'input': {'docs': docs, 'order': order, 'mode': 'textfile'}, 'expected': f.get('expected'),
                                   'impl': f.get('observed'), 'why': '%s (doctest #%s of the file)' % (f['what'], f.get('step'))})
        if res:
            out['samples'].append({'op': 'pytest --xdoctest-glob=*.txt --xdoctest-style=google', 'text_file': res[0]['text'],
                                   'records': res[0]['records']})
        return out
    rng = random.Random('c11:%d:%d' % (seed, shard))
    out = {'n': 0, 'nontriv': set(), 'tags': {}, 'dis': [], 'exp': [], 'samples': [], 'unknown': 0}

    def tag(t):
        out['tags'][t] = out['tags'].get(t, 0) + 1
    buf = io.StringIO()
    with ci.scratch() as d, contextlib.redirect_stdout(buf):
        jobs = [('direct',) + _gen(rng, True) for _ in range(count)]
        jobs += [('runner', gi.gen_case(rng), [], gi.gen_defaults(rng, 0.5)) for _ in range(runner_count)]
        lines = []
        results = []
        for mode, docs, history, defaults in jobs:
            r = check_case(docs, history, mode, d, want_model=True, defaults=defaults)
            r['defaults'] = defaults
            results.append((mode, docs, r))
            lines.append(r['model_line'])
        answers = driver.run_lines([l for l in lines if l is not None], jobs=1)
        ai = 0
        for (mode, docs, r), line in zip(results, lines):
            inp = {'docs': docs, 'history': [list(s) for s in r['history']], 'mode': mode, 'defaults': r['defaults']}
            out['n'] += len(r['records'])
            if r['defaults']:
                tag('%s:user-default-state' % mode)
            if line is None:
                out['unknown'] += 1
                continue
            model = answers[ai].split('\t') if answers[ai] else []
            ai += 1
            if len(r['history']) >= 2:
                out['nontriv'].add(hash((r['source'], tuple(r['history']))))
            seen_docs = set()
            for k, ((i, oe), rec) in enumerate(zip(r['history'], r['records'])):
                m = model[k] if k < len(model) else 'missing'
                tag('%s:%s' % (mode, rec.split(' ', 1)[0].split(':')[0]))
                if i in seen_docs:
                    tag('rerun-same-object' if mode == 'direct' else 'second-module-run')
                seen_docs.add(i)
                if 'ns=~' not in m.split(' '):
                    tag('stale-namespace-kept')
                if ci.canon(rec) != ci.canon(m):
                    out['dis'].append({'input': dict(inp, step=k), 'model': ci.canon(m), 'impl': ci.canon(rec)})
                    break
            for f in r['failures']:
                out['exp'].append({'input': inp, 'expected': f.get('expected'), 'impl': f.get('observed'),
                                   'why': '%s (step %s, doctest %s)' % (f['what'], f.get('step'), f.get('doc'))})
            if len(out['samples']) < 1 and len(r['history']) >= 3:
                out['samples'].append({'op': 'history', 'mode': mode, 'module': r['source'], 'history': r['history'],
                                       'last_record': r['records'][-1]})
    return out


def correspondence(ctx, corr):
    count = 120 if ctx.quick else 1500
    rc = 10 if ctx.quick else 120
    tc = 25 if ctx.quick else 300
    jobs = [(ctx.seed, s, count, rc) for s in range(16)] + [(ctx.seed, 100 + s, tc, 0) for s in range(TEXT_SHARDS)]
    res = par.pmap(_shard, jobs, jobs=len(jobs))
    for r in res:
        corr.count('history', r['n'])
        corr.nontrivial |= r['nontriv']
        corr.unknown += r['unknown']
        for k, v in r['tags'].items():
            corr.tag(k, v)
        for d in r['dis']:
            corr.disagree('history', d['input'], d['model'], d['impl'])
        for e in r['exp']:
            corr.expect_fail('history-vs-alone', e['input'], e['expected'], e['impl'], e['why'])
        for s in r['samples']:
            corr.sample(s)
    # regression: the input of the repaired K-C11-b must pass
    with ci.scratch() as d:
        h = shared_config_set(d)
        corr.count('regression:shared-config-set')
        if h:
            corr.expect_fail('regression:shared-config-set', h['input'], h['failure']['expected'], h['failure']['observed'],
                             h['failure']['what'])
    # the witness of K-C11-a is what the model says it is, on the real code
    with ci.scratch() as d:
        r = check_case(K_C11_A['docs'], K_C11_A['history'], 'direct', d, want_model=True)
        m = driver.run_lines([r['model_line']])[0].split('\t')
        corr.count('k-c11-a-witness', 2)
        for rec, mm in zip(r['records'], m):
            if ci.canon(rec) != ci.canon(mm):
                corr.disagree('k-c11-a-witness', K_C11_A, ci.canon(mm), ci.canon(rec))
        corr.sample({'op': 'history', 'witness': 'K-C11-a', 'records': r['records']})


def _shrink(docs, history, mode, d, pred, defaults=None):
    """drop history steps while some failure satisfying `pred` remains"""
    if mode == 'runner':
        return history
    h = list(history)
    changed = True
    while changed and len(h) > 1:
        changed = False
        for k in range(len(h) - 1, -1, -1):
            h2 = h[:k] + h[k + 1:]
            if not h2:
                continue
            r = check_case(docs, h2, mode, d, unrestricted=True, defaults=defaults)
            if any(pred(f) for f in r['failures']):
                h = h2
                changed = True
                break
    return h


def _hit_of(docs, history, mode, defaults, d):
    """apply the oracle to one input; a shrunk hit or None"""
    r = check_case(docs, history, mode, d, unrestricted=True, defaults=defaults)
    if not r['failures']:
        return None
    what = r['failures'][0]['what']
    h = _shrink(docs, r['history'], mode, d, lambda f: f['what'] == what, defaults=defaults)
    # do the user defaults matter? (smaller input if not)
    if defaults and any(f['what'] == what for f in check_case(docs, h, mode, d, unrestricted=True)['failures']):
        defaults = None
    r2 = check_case(docs, h, mode, d, unrestricted=True, defaults=defaults)
    fs = [f for f in r2['failures'] if f['what'] == what] or r['failures']
    return {'kind': 'history', 'input': {'docs': docs, 'history': [list(s) for s in r2['history']], 'mode': mode, 'defaults': defaults},
            'module': r2['source'], 'failure': fs[0], 'records': r2['records']}


def _search_shard(args):
    seed, shard, count = args
    rng = random.Random('c11s:%d:%d' % (seed, shard))
    hits = []
    if shard >= 100:
        cases = [_gen_text(rng) for _ in range(40)]
        with ci.scratch() as d:
            res = ci.check_textfiles(cases, d, 'ts%d' % shard)
            for k, ((docs, order), r) in enumerate(zip(cases, res)):
                if r['failures']:
                    h = _text_hit(docs, order, d, 'th%d_%d' % (shard, k))
                    if h:
                        hits.append(h)
                        break
        return hits
    buf = io.StringIO()
    with ci.scratch() as d, contextlib.redirect_stdout(buf):
        for t in range(count):
            mode = 'runner' if t % 8 == 7 else 'direct'
            docs, history, defaults = _gen(rng, True)
            if t % 2 == 1 and not defaults:
                defaults = gi.gen_defaults(rng, 1.0)      # half of the search stream runs with user default directives
            h = _hit_of(docs, history, mode, defaults, d)
            if h:
                hits.append(h)
                if len(hits) >= 2:
                    break
    return hits


def search(ctx, corr, broken):
    hits = []
    # start from the inputs of the disagreements / failed expectations
    with ci.scratch() as d:
        buf = io.StringIO()
        with contextlib.redirect_stdout(buf):
            for src in list(corr.disagreements)[:4] + list(corr.expect_failures)[:4]:
                inp = src['input']
                if 'docs' not in inp:
                    continue
                if inp.get('mode') == 'textfile':
                    if not any(x.get('kind') == 'textfile' for x in hits):
                        h = _text_hit(inp['docs'], inp['order'], d, 'tx%d' % len(hits))
                        if h:
                            hits.append(h)
                    continue
                h = _hit_of(inp['docs'], inp['history'], inp.get('mode', 'direct'), inp.get('defaults'), d)
                if h:
                    hits.append(h)
    res = par.pmap(_search_shard, [(ctx.seed, s, 60) for s in range(16)] + [(ctx.seed, 100 + s, 0) for s in range(2)], jobs=18)
    for r in res:
        hits.extend(r)
    with ci.scratch() as d:
        h = shared_config_set(d)
        if h:
            hits.append(h)
    # unlisted hits first, so that the replay files name genuinely new failures
    hits.sort(key=lambda h: classify(ctx, h) is not None)
    return hits[:12]


def _is_k_c11_a(inp, tmpdir):
    """narrow predicate: (1) the only failures are outcome differences at steps whose object was last
    run to a PROPAGATING end (on_error='raise' failure), and (2) they vanish when the namespace of
    such an object is cleared by hand before the re-run"""
    if inp.get('mode') != 'direct':
        return False
    defaults = inp.get('defaults')
    r = check_case(inp['docs'], inp['history'], 'direct', tmpdir, unrestricted=True, defaults=defaults)
    if not r['failures']:
        return False
    for f in r['failures']:
        if not f.get('after_propagating_run_of_same_object'):
            return False
    # neutralise the trigger: same history, namespace cleared after every propagating run
    case = ci.Case(inp['docs'], tmpdir, tag='n')
    ci.patch_runtime_state()
    exs = case.parse()
    if defaults:
        cfg = ci.make_defaults(defaults)
        for e in exs:
            e.config['default_runtime_state'] = cfg
    ok = True
    alone = {int(i): ci.run_alone(case, int(i), defaults) for i, _ in inp['history']}
    with ci.ProcState():
        import sys
        sys.path.insert(0, case.tmpdir)
        buf = io.StringIO()
        with contextlib.redirect_stdout(buf):
            for i, oe in inp['history']:
                rec = ci.observe_run(case, exs[int(i)], oe)
                exp = alone[int(i)]
                a, b = ci.outcome_of(rec), ci.outcome_of(exp)
                if oe == 'e':
                    a, b = _strip_ending(a), _strip_ending(b)
                if a != b:
                    ok = False
                if _propagated(rec):
                    exs[int(i)].global_namespace.clear()
    case.forget()
    return ok


def classify(ctx, hit):
    inp = hit.get('input') or {}
    if 'docs' not in inp or inp.get('mode') == 'textfile':
        return None
    with ci.scratch() as d:
        buf = io.StringIO()
        with contextlib.redirect_stdout(buf):
            try:
                if _is_k_c11_a(inp, d):
                    return 'K-C11-a'
            except Exception:
                return None
    return None


def replay_finding(ctx, finding):
    if finding['id'] != 'K-C11-a':
        return False
    with ci.scratch() as d:
        buf = io.StringIO()
        with contextlib.redirect_stdout(buf):
            r = check_case(K_C11_A['docs'], K_C11_A['history'], 'direct', d, unrestricted=True)
            known = _is_k_c11_a(K_C11_A, d)
    return bool(r['failures']) and known


def replay(ctx, failing):
    inp = failing['input']
    if failing.get('kind') == 'shared-config-set':
        with ci.scratch() as d:
            h = shared_config_set(d)
        print('module:\n%s\nrunner.doctest_module(..., config=%s)' % (inp['module'], inp['config']))
        print('observed now: %s' % (h['failure']['observed'] if h else 'n_passed=1, the set stays empty'))
        return h is not None
    if inp.get('mode') == 'textfile':
        with ci.scratch() as d:
            r = ci.check_textfiles([(inp['docs'], inp['order'])], d, 'replay')[0]
        print('text file collected by pytest (--xdoctest-glob=*.txt --xdoctest-style=google):\n' + r['text'])
        for k, rec in enumerate(r['records']):
            print('  doctest #%d: %s' % (k, rec))
        for f in r['failures']:
            print('FAILS: %s: doctest #%s (block %s)\n   observed: %s\n   alone   : %s' % (
                f['what'], f.get('step'), f.get('doc'), f.get('observed'), f.get('expected')))
        if not r['failures']:
            print('every doctest of the file behaves as it does alone in its own file')
        return bool(r['failures'])
    with ci.scratch() as d:
        buf = io.StringIO()
        with contextlib.redirect_stdout(buf):
            r = check_case(inp['docs'], inp['history'], inp.get('mode', 'direct'), d, unrestricted=True,
                           defaults=inp.get('defaults'))
    print('module under test:\n' + r['source'])
    if inp.get('defaults'):
        print("config['default_runtime_state'] = %s (one dict shared by all runs)" % ci.render_defaults(ci.make_defaults(inp['defaults'])))
    print('mode: %s   history (doctest index, r=on_error return / e=raise): %r' % (inp.get('mode', 'direct'), r['history']))
    for k, rec in enumerate(r['records']):
        print('  step %d: %s' % (k, rec))
    for f in r['failures']:
        print('FAILS: %s at step %s (doctest %s)\n   observed: %s\n   expected: %s' % (
            f['what'], f.get('step'), f.get('doc'), f.get('observed'), f.get('expected')))
    if not r['failures']:
        print('every step agrees with the doctest run alone; module globals, template and namespaces are clean')
    return bool(r['failures'])

"""C10 — Native runner tallies and exit status agree with the per-doctest outcomes."""
import itertools
import os
import random
import re
import shutil
import sys
import tempfile

from .. import driver, par
from ..codec import enc
from ..corr import runnercorr as R
from ..corr import runnerenv as E
from ..gen import runner_modules as G
from ..shrink import shrink_list

LEAN_TARGETS = ['XdocModel.Proofs.C10', 'XdocModel.Pins.Runner']
MANIFEST = {
    'text': ("Full for the runner's own logic. Proved for ALL lists of collected doctests, source texts and per-doctest results of the "
             "runner model (Runner.lean): `tally_adds_up` (n_passed+n_failed+n_skipped = n_total = number of doctests run, for every "
             "command, with per-doctest summaries produced by the run-loop model — uses C02.verdict_trichotomy), `failed_list_exact` "
             "(the failed list is exactly the run doctests whose summary says failed, in order, n_failed its length), "
             "`exit_nonzero_iff_failed` (exit status of `python -m xdoctest mod all` != 0 iff a not-force-disabled doctest failed; "
             "list/dump exit 0), `all_runs_enabled_once` (all = the collected doctests that are not force-disabled, each once, in order; "
             "the zero-arg fallback is silent), `list_names_all`, `unique_name_runs_exactly_one` (callname:num gathers exactly that "
             "doctest even if force-disabled) and, stated not hidden, `bare_callname_runs_all_of_it` (a bare callname runs ALL doctests "
             "of the callable). Hypotheses named in the theorems: no exception escapes run(on_error='return') (C09) and no Ctrl-C "
             "(`interrupt_breaks_tally` witnesses that a KeyboardInterrupt makes n_total count doctests that never ran, exit status 0). "
             "The keyword list of is_disabled is regenerated from the code and used by the model. Observed: generated modules with "
             "by-construction outcomes, every order of 12 kinds (the 8 of the property + fail-before-anything-ran: compile-only error in the first executed part, malformed directive; some modules raise on import + the doctest ends itself at run time: pytest.skip() / ExitTestException) up to length 3 (4 thorough) and random up to 12, x command "
             "{all, list, unique name, bare callname, zero-arg name, unknown name, zero-all} x verbosity x style x --options, through "
             "runner.doctest_module, xdoctest.__main__.main and `python -m xdoctest` subprocesses: run_summary, TRACE of executed "
             "doctests, summary line, verdict lines, list output and exit status, three ways (expectation / model / code)."),
    'note': ("Trusted: Lean kernel/axioms as audited; hand-written model of runner.doctest_module/_run_examples/__main__.main and of the "
             "is_disabled regex (pattern texts pinned, IGNORECASE equivalents table-checked against `re` every run); collection "
             "(parse_doctestables) is an input of the model (C07); CPython's exit status 1 for an uncaught exception."),
    'technique': 'Lean 4 proof (induction over the example list) + differential correspondence on generated modules',
}
RULE_EXTRA = (' | STATE: random modules are called several times in one process with different style / options / global-exec / '
              'analysis per call, the same call two or three times in a row and once more at the end (a failing case is recorded '
              'with its call history); OPTIONS: every CLI option that can change which doctests run or how they are judged '
              '(--style, --analysis, --global-exec, --options; each also through XDOCTEST_* variables, flag over variable) and '
              'the cosmetic ones (--offset --nocolor --colored --report --durations --time --supress-import-errors --verbose '
              '--quiet --silent, NO_COLOR, XDOCTEST_DEBUG*), module named by absolute path from another directory / relative path '
              '/ file name / dotted name (cwd or PYTHONPATH), stdout a terminal (pty), through __main__.main and real '
              'subprocesses, with the effect each has BY CONSTRUCTION (kind `useglobal` passes only with global-exec; most '
              'options change nothing); SCALE: 300 doctests with exactly 256 failures (255/257/512 thorough), only skipped '
              'doctests, a callable with 12..40 Example blocks (`f0:1` vs `f0:10`) after up to 5000 prose lines, doctests of '
              '30..120 statements; INTERACTIONS: google and header-less docstrings in one module under every style, nested '
              'classes (never collected), zero-arg functions x named x list/dump/all, a per-module token (`modval`)')
RULE = ('modules generated from 12 by-construction kinds (incl. a doctest calling pytest.skip() / raising ExitTestException at run time) (pass, fail by output, fail by exception, fail BEFORE any part ran: compile-only error in the first executed part / malformed directive, all skipped, partly skipped, expected '
        'exception, force-disabled (10 spellings x passing/failing body), comment only) + near-miss/option-sensitive kinds, two-block '
        'callables, methods, functions without doctest; EVERY order of the 12 kinds up to length 3 (quick) / 4 (thorough) and random '
        'modules up to 12 callables; x command {all, list, every unique name (<=4), bare callname, zero-arg function, unknown, zero-all} x '
        'verbosity {0,1,3 / --quiet --silent} x style {google, freeform, auto} x 8 option sets; channels: doctest_module (in-process), '
        '__main__.main (in-process, exit status + printed summary), python -m xdoctest (subprocess). non-trivial = the command runs >= 2 '
        'doctests with different outcomes, or involves a force-disabled doctest, or a name; distinct = distinct (module, case)')
ASSUMPTIONS = ['no exception escapes DocTest.run(on_error="return") (C09) and no KeyboardInterrupt during the run',
               'unique callnames are unique within a module and callnames contain no colon (established by collection, C07)',
               'the collected doctest list is taken from the real parse_doctestables (collection is C07)']

RULE = RULE + RULE_EXTRA
FLAG_SETS = [['--verbose', '0'], ['--verbose', '1'], ['--quiet'], ['--silent'], [], ['--verbose', '2']]


# ------------------------------------------------------------------ case plans
# the by-construction outcome set enumerated in every order: the 8 kinds of the property text, the two
# "fails before anything ran" kinds (compile-only error in the first executed part, malformed directive) and the two
# "ends itself at run time" kinds (the doctest calls pytest.skip() / raises ExitTestException: passed, later ones run)
ALPHABET = G.KINDS + G.EARLY_KINDS + G.EXIT_KINDS + ['reqblock']
# random modules: additionally the near-miss / option-sensitive kinds and `pyskip` (first line `>>> # pytest.skip`:
# force-disabled for pytest ONLY, so the native runner must run it)
NATIVE_KINDS = G.KINDS + G.EXTRA_KINDS + G.EARLY_KINDS + G.EXIT_KINDS + G.STATE_KINDS + G.LEFTON_KINDS + ['pyskip']


def exhaustive_items(maxlen):
    out = []
    for n in range(1, maxlen + 1):
        # all 12 kinds up to length 3; length 4 (thorough tier) over the 8 kinds of the property text
        for t in itertools.product(range(len(ALPHABET) if n <= 3 else len(G.KINDS)), repeat=n):
            out.append(t)
    return out


def spec_of_kinds(name, t, salt):
    rng = random.Random('c10x:%s:%d' % (name, salt))
    items = [(ALPHABET[k], rng.randrange(G.n_disabled_variants())) for k in t]
    spec = G.make_spec(name, items, rng=rng)
    if rng.random() < 0.04:
        spec['import_error'] = True      # the module under test raises when imported
    return spec


def _maybe_attached(spec, rng, p=0.12):
    """some random modules get their docstrings attached at import time from a sibling module (no prompt in the
    module's own file); they are always run with dynamic analysis"""
    if rng.random() < p and not spec.get('import_error'):
        spec['attached'] = True
    return spec


def names_for(spec, style, rng, limit=4):
    inv = G.inventory(spec, style)
    uniq = [d['unique'] for d in inv]
    pick = []
    dis = [d['unique'] for d in inv if G.disabled(d)]
    if dis:
        pick.append(rng.choice(dis))
    if uniq:
        pick += [uniq[0], uniq[-1]]
        pick += rng.sample(uniq, min(len(uniq), 2))
    seen = []
    for p in pick:
        if p not in seen:
            seen.append(p)
    return seen[:limit]


def plan_cases(spec, rng, quick, exhaustive):
    """list of cases for one module"""
    style = 'google' if exhaustive and rng.random() < 0.6 else rng.choice(['google', 'freeform', 'auto'])
    # user-supplied directive defaults on a third of the exhaustive modules (state shared between the doctests of ONE
    # run only shows when defaults are given)
    optstr, opts = (None, {}) if (exhaustive and rng.random() < 0.65) else rng.choice(G.OPTION_SETS)
    # exhaustive modules of three or more callables: two named doctests are enough (the smaller modules and the
    # random stream name up to four), which keeps the quick tier within its time budget
    cmds = ['all', 'list'] + names_for(spec, style, rng, 2 if (exhaustive and quick and len(spec['funcs']) >= 3) else 4)
    inv = G.inventory(spec, style)
    if inv:
        cmds.append(rng.choice(inv)['callname'])
    if rng.random() < 0.3:
        cmds.append('nonexistent')
    zs = G.zero_arg_functions(spec)
    if zs and rng.random() < 0.3:
        cmds.append(rng.choice(zs))
    if rng.random() < 0.1:
        cmds.append(rng.choice(['zero-all', 'zero', 'zero_all', 'zero-args']))
    if rng.random() < 0.15:
        cmds.append('dump')          # gathers like `all`, executes nothing, exit status 0
    cases = []
    for cmd in cmds:
        v = rng.choice([0, 0, 1, 3] if quick else [-1, 0, 1, 2, 3])
        st_c, optstr_c, opts_c = style, optstr, opts
        extra = {}
        if not exhaustive:
            # STATE: the calls made on one module in one process differ in style / options / global-exec /
            # analysis, so anything carried over from an earlier call (DocTest objects, config dicts, caches)
            # shows up as a difference from the by-construction expectation of THIS call
            if rng.random() < 0.5:
                st_c = rng.choice(['google', 'freeform', 'auto'])
            if rng.random() < 0.5:
                optstr_c, opts_c = rng.choice(G.OPTION_SETS)
            if rng.random() < 0.25:
                opts_c = dict(opts_c, __genv__=True)
                extra['global_exec'] = rng.choice([E.GEXEC, E.GEXEC2])
            extra['analysis'] = rng.choice(['auto', 'auto', 'static', 'auto' if spec.get('import_error') else 'dynamic'])
            if spec.get('attached'):
                extra['analysis'] = 'dynamic'      # docstrings attached at import time: only dynamic analysis sees them
            if rng.random() < 0.2:
                extra['durations'] = rng.choice([0, 2])
        cases.append(dict({'channel': 'api', 'cmd': cmd, 'style': st_c, 'verbose': v, 'optstr': optstr_c, 'opts': opts_c,
                           'noconfig': optstr_c is None and rng.random() < 0.3,
                           'ident': rng.choice(['path', 'path', 'colon', 'path' if spec.get('import_error') else 'module'])},
                          **extra))
        if cmd in ('all', 'list') or rng.random() < 0.4:
            cases.append({'channel': 'main', 'cmd': cmd if not (cmd == 'all' and rng.random() < 0.3) else None, 'style': style,
                          'flags': rng.choice(FLAG_SETS) + (['--analysis', 'dynamic'] if spec.get('attached') else []),
                          'optstr': optstr, 'opts': opts})
    if not exhaustive:
        # REPETITION: the same call twice or three times in a row, and the first call again at the very end
        rep = []
        for c in cases:
            rep.append(c)
            r = rng.random()
            if r < 0.25:
                rep.append(dict(c, repeat=2))
                if r < 0.08:
                    rep.append(dict(c, repeat=3))
        rep.append(dict(cases[0], repeat='last'))
        cases = rep
    return cases


def nontrivial(res):
    e = res['exp']
    c = res['case']
    if c['cmd'] not in ('all', 'list', None):
        return True
    if e['action'] == 'list':
        return len(e['names']) >= 2
    return len(set(e['outcomes'])) >= 2 or e['n_total'] != len(e['outcomes'])


def _pack(spec, res):
    c = dict(res['case'])
    return {'spec': spec, 'case': c}


def _worker(args):
    mode, shard, nshards, seed, params = args
    rng = random.Random('c10:%s:%d:%d' % (mode, seed, shard))
    d = tempfile.mkdtemp(prefix='xdocverif-c10-')
    out = {'n': 0, 'suites': {}, 'nontrivial': set(), 'tags': {}, 'dis': [], 'exp': [], 'samples': []}
    try:
        trace = os.path.join(d, 'trace.txt')
        specs = []
        if mode == 'exhaustive':
            for i, t in enumerate(exhaustive_items(params['maxlen'])):
                if i % nshards == shard:
                    specs.append(spec_of_kinds('x%d_%s' % (shard, '_'.join(map(str, t))), t, seed))
        else:
            for i in range(params['count']):
                specs.append(_maybe_attached(G.random_spec('r%d_%d' % (shard, i), rng, maxlen=12, kinds=NATIVE_KINDS), rng))
        for spec in specs:
            cases = plan_cases(spec, rng, params['quick'], mode == 'exhaustive')
            if params.get('expect_only'):
                cases = [c for c in cases]
            for ci, res in enumerate(R.run_cases(d, spec, cases, trace, use_model=not params.get('expect_only'))):
                out['n'] += 1
                if res['case'].get('repeat'):
                    out['tags']['repeated call'] = out['tags'].get('repeated call', 0) + 1
                suite = '%s:%s' % (mode, res['case']['channel'])
                out['suites'][suite] = out['suites'].get(suite, 0) + 1
                e = res['exp']
                tag = 'list' if e['action'] == 'list' else ('cmd=%s' % ('all' if res['case']['cmd'] in ('all', None) else 'name'))
                out['tags'][tag] = out['tags'].get(tag, 0) + 1
                if e['action'] == 'run':
                    t2 = 'exit=%d' % e['exit']
                    out['tags'][t2] = out['tags'].get(t2, 0) + 1
                if res['case']['channel'] == 'api' and res['case']['cmd'] == 'all':
                    for fn in spec['funcs']:
                        for b in fn['blocks']:
                            out['tags']['kind:' + b[0]] = out['tags'].get('kind:' + b[0], 0) + 1
                    if spec.get('import_error'):
                        out['tags']['module raises on import'] = out['tags'].get('module raises on import', 0) + 1
                if nontrivial(res):
                    out['nontrivial'].add(hash((G.render(spec), repr(sorted((k, repr(v)) for k, v in res['case'].items())))))
                inp = _pack(spec, res)
                if (res['dis'] or res['bad']) and mode != 'exhaustive':
                    # the calls made before this one on the same module in the same process (state / history)
                    inp['history'] = cases[:ci]
                if res['dis'] and len(out['dis']) < 10:
                    out['dis'].append((inp, res.get('model_raw'), '; '.join(res['dis'])))
                if res['bad'] and len(out['exp']) < 10:
                    out['exp'].append((inp, _short(res['exp']), _short_obs(res['obs']), '; '.join(res['bad'])))
                if len(out['samples']) < 1 and len(spec['funcs']) >= 3 and res['case']['cmd'] == 'all':
                    out['samples'].append({'module_kinds': [[b[0] for b in f['blocks']] for f in spec['funcs']],
                                           'case': {k: v for k, v in res['case'].items() if k != 'opts'},
                                           'expected': _short(res['exp']), 'model': res.get('model_raw')})
    finally:
        shutil.rmtree(d, ignore_errors=True)
    return out


def _short(e):
    return {k: v for k, v in e.items() if k not in ('outcomes',)}


def _short_obs(o):
    return {k: (v[-400:] if k == 'stdout' and isinstance(v, str) else v) for k, v in o.items() if k not in ('keys',)}


def _cli_worker(args):
    shard, nshards, seed, count = args
    rng = random.Random('c10cli:%d:%d' % (seed, shard))
    d = tempfile.mkdtemp(prefix='xdocverif-c10cli-')
    out = {'n': 0, 'suites': {}, 'nontrivial': set(), 'tags': {}, 'dis': [], 'exp': [], 'samples': []}
    try:
        trace = os.path.join(d, 'trace.txt')
        for i in range(count):
            spec = _maybe_attached(G.random_spec('c%d_%d' % (shard, i), rng, maxlen=6, kinds=NATIVE_KINDS), rng)
            style = rng.choice(['google', 'freeform', 'auto'])
            optstr, opts = rng.choice(G.OPTION_SETS)
            cmd = rng.choice(['all', 'all', None, 'list'] + names_for(spec, style, rng, 2))
            case = {'channel': 'cli', 'cmd': cmd, 'style': style, 'optstr': optstr, 'opts': opts,
                    'flags': rng.choice(FLAG_SETS) + (['--analysis', 'dynamic'] if spec.get('attached') else [])}
            for res in R.run_cases(d, spec, [case], trace):
                out['n'] += 1
                out['suites']['random:cli'] = out['suites'].get('random:cli', 0) + 1
                if nontrivial(res):
                    out['nontrivial'].add(hash((G.render(spec), repr(sorted((k, repr(v)) for k, v in res['case'].items())))))
                inp = _pack(spec, res)
                if res['dis'] and len(out['dis']) < 10:
                    out['dis'].append((inp, res.get('model_raw'), '; '.join(res['dis'])))
                if res['bad'] and len(out['exp']) < 10:
                    out['exp'].append((inp, _short(res['exp']), _short_obs(res['obs']), '; '.join(res['bad'])))
    finally:
        shutil.rmtree(d, ignore_errors=True)
    return out


# ------------------------------------------------------------------ options / environment / cwd / tty
TARGET_MODES = ['abs-elsewhere', 'rel-parent', 'here', 'dotted-here', 'dotted-pythonpath']


def _target(mode, path, d):
    """(target argument, cwd, PYTHONPATH addition) for a way of naming the module"""
    moddir, base = os.path.dirname(path), os.path.basename(path)
    other = os.path.join(d, 'elsewhere')
    os.makedirs(other, exist_ok=True)
    if mode == 'abs-elsewhere':
        return path, other, None
    if mode == 'rel-parent':
        return os.path.relpath(path, d), d, None
    if mode == 'here':
        return base, moddir, None
    if mode == 'dotted-here':
        return base[:-3], moddir, None
    return base[:-3], other, moddir


def _treated_case(d, spec, path, cmd, t, channel, mode, use_pty, trace, use_model=True):
    """one run of the native CLI under treatment `t`; three-way comparison as for every other case"""
    style = t['style']
    opts = E.oracle_opts(t)
    exp = G.expected_run(spec, style, cmd if cmd is not None else 'all', opts)
    inv = R.real_inventory(path, style)
    entries = R.model_entries(spec, style, opts, inv)
    target, cwd, pp = _target(mode, path, d)
    if channel == 'main':
        o = E.main_inprocess(target, cmd, t['nat'], t['env'], cwd, trace)
    else:
        o = E.cli(target, cmd, t['nat'], t['env'], cwd, trace, use_pty=use_pty, pythonpath=pp)
    o['verbose'] = t['verbose'] if t['verbose'] is not None else 3
    model, raw = None, None
    if entries is None:
        return {'dis': [], 'bad': ['collected doctests %r, expected %r' % ([r[2] for r in inv], [x['unique'] for x in G.inventory(spec, style)])],
                'exp': exp, 'obs': o, 'model_raw': None}
    if use_model:
        raw = driver.run_lines([R.runner_line(cmd if cmd is not None else 'all', entries)], jobs=1)[0]
        model = R.parse_runner_answer(raw) if raw != 'bad-op' else None
    dis, bad = R.compare_case(exp, model, o)
    return {'dis': dis, 'bad': bad, 'exp': exp, 'obs': o, 'model_raw': raw}


def _opt_worker(args):
    shard, nshards, seed, nmod, ncase, expect_only = args
    rng = random.Random('c10opt:%d:%d' % (seed, shard))
    d = tempfile.mkdtemp(prefix='xdocverif-c10o-')
    out = {'n': 0, 'suites': {}, 'nontrivial': set(), 'tags': {}, 'dis': [], 'exp': [], 'samples': []}
    try:
        trace = os.path.join(d, 'trace.txt')
        moddir = os.path.join(d, 'mods')
        os.makedirs(moddir)
        for i in range(nmod):
            spec = _maybe_attached(G.random_spec('o%d_%d' % (shard, i), rng, maxlen=6, kinds=NATIVE_KINDS), rng, 0.2)
            path = R.write_module(moddir, spec)
            for j in range(ncase):
                style = rng.choice(['google', 'freeform', 'auto'])
                optstr, opts = rng.choice(G.OPTION_SETS)
                t = E.draw(rng, style, optstr, opts)
                if t.get('needs_import') and spec.get('import_error'):
                    continue
                if spec.get('attached'):
                    t = dict(t, nat=t['nat'] + ['--analysis', 'dynamic'], name=t['name'] + '+attached-docstrings')
                channel = 'main' if (j % 3 and not t['subprocess_only']) else 'cli'
                mode = rng.choice(TARGET_MODES[:3]) if channel == 'main' else rng.choice(TARGET_MODES)
                use_pty = channel == 'cli' and rng.random() < 0.25
                cmd = rng.choice(['all', 'all', None, 'list'] + names_for(spec, style, rng, 2))
                res = _treated_case(d, spec, path, cmd, t, channel, mode, use_pty, trace, use_model=not expect_only)
                out['n'] += 1
                su = 'options:%s' % channel
                out['suites'][su] = out['suites'].get(su, 0) + 1
                for nm in t['name'].split('+') + ['target=' + mode] + (['tty'] if use_pty else []):
                    out['tags']['opt:' + nm] = out['tags'].get('opt:' + nm, 0) + 1
                out['nontrivial'].add(hash((G.render(spec), t['name'], cmd, channel, mode, use_pty)))
                inp = {'spec': spec, 'treated': {'cmd': cmd, 'treatment': t, 'channel': channel, 'mode': mode, 'pty': use_pty}}
                if res['dis'] and len(out['dis']) < 10:
                    out['dis'].append((inp, res['model_raw'], '; '.join(res['dis'])))
                if res['bad'] and len(out['exp']) < 10:
                    out['exp'].append((inp, _short(res['exp']), _short_obs(res['obs']), '; '.join(res['bad'])))
                if not out['samples']:
                    out['samples'].append({'treatment': t['name'], 'native args': t['nat'], 'env': t['env'], 'target': mode,
                                           'tty': use_pty, 'cmd': cmd, 'expected': _short(res['exp'])})
    finally:
        shutil.rmtree(d, ignore_errors=True)
    return out


# ------------------------------------------------------------------ scale
def scale_tasks(quick):
    """(kind, parameters) : modules with many doctests / many failures / many blocks / very long docstrings"""
    t = [('many', {'n': 300, 'nfail': 256, 'nskip': 10}),        # exit status must not be n_failed modulo 256
         ('many', {'n': 60, 'nfail': 0, 'nskip': 60}),           # nothing but skipped doctests
         ('blocks', {'nblocks': 40, 'prose': 1500}),             # f0:0 .. f0:39 after 1500 lines of prose
         ('blocks', {'nblocks': 12, 'prose': 0})]
    if not quick:
        t += [('many', {'n': nf + 20, 'nfail': nf, 'nskip': 5}) for nf in (255, 257, 512)]
        t += [('many', {'n': 300, 'nfail': 1, 'nskip': 0}), ('many', {'n': 50, 'nfail': 50, 'nskip': 0})]
        t += [('blocks', {'nblocks': nb, 'prose': pr}) for nb, pr in ((10, 5000), (25, 200), (40, 0))]
    return t


def _scale_worker(args):
    idx, kind, prm, seed, expect_only = args
    rng = random.Random('c10scale:%d:%d' % (seed, idx))
    d = tempfile.mkdtemp(prefix='xdocverif-c10sc-')
    out = {'n': 0, 'suites': {}, 'nontrivial': set(), 'tags': {}, 'dis': [], 'exp': [], 'samples': []}
    try:
        trace = os.path.join(d, 'trace.txt')
        if kind == 'many':
            spec = G.scale_spec('sc%d' % idx, prm['n'], prm['nfail'], rng, prm['nskip'])
            style = rng.choice(['google', 'freeform', 'auto'])
            uq = [x['unique'] for x in G.inventory(spec, style)]
            names = [uq[0], uq[-1], uq[min(len(uq) - 1, 255)], uq[len(uq) // 2]]
        else:
            spec = G.manyblock_spec('sb%d' % idx, prm['nblocks'], rng, prm['prose'])
            style = rng.choice(['google', 'auto'])
            # `f0:1` must select exactly one doctest although f0:10 .. f0:19 start with the same text
            names = ['f0:1', 'f0:%d' % (prm['nblocks'] - 1), 'f0:10' if prm['nblocks'] > 10 else 'f0:2', 'f0', 'f1:0']
        base = {'style': style, 'optstr': None, 'opts': {}}
        cases = [dict(base, channel='api', cmd='all', verbose=0), dict(base, channel='api', cmd='list', verbose=1),
                 dict(base, channel='cli', cmd='all', flags=['--verbose', '0']),
                 dict(base, channel='cli', cmd=None, flags=['--quiet']),
                 dict(base, channel='main', cmd='all', flags=['--verbose', '1'])]
        cases += [dict(base, channel='api', cmd=nm, verbose=1) for nm in names]
        if kind == 'blocks':
            cases += [dict(base, channel='api', cmd=c, verbose=0, style='freeform') for c in ('all', 'f0:0', 'list')]
        for res in R.run_cases(d, spec, cases, trace, use_model=not expect_only):
            out['n'] += 1
            su = 'scale:%s' % res['case']['channel']
            out['suites'][su] = out['suites'].get(su, 0) + 1
            tg = 'scale:%s %r' % (kind, sorted(prm.items()))
            out['tags'][tg] = out['tags'].get(tg, 0) + 1
            out['nontrivial'].add(hash(('scale', kind, repr(prm), repr(sorted((k, repr(v)) for k, v in res['case'].items())))))
            inp = _pack(spec, res)
            if res['dis'] and len(out['dis']) < 4:
                out['dis'].append((inp, (res.get('model_raw') or '')[:300], '; '.join(res['dis'])[:2000]))
            if res['bad'] and len(out['exp']) < 4:
                e, o = _short(res['exp']), _short_obs(res['obs'])
                for dd in (e, o):      # keep the record small: these modules have hundreds of doctests
                    for k in ('ran', 'trace', 'failed', 'verdict_lines', 'names'):
                        if isinstance(dd.get(k), list) and len(dd[k]) > 12:
                            dd[k] = dd[k][:6] + ['... %d entries ...' % len(dd[k])] + dd[k][-3:]
                out['exp'].append((inp, e, o, '; '.join(res['bad'])[:2000]))
    finally:
        shutil.rmtree(d, ignore_errors=True)
    return out


def _dispatch(job):
    kind, args = job
    return _opt_worker(args) if kind == 'opt' else _scale_worker(args)


def _merge(corr, r):
    for k, v in r['suites'].items():
        corr.count(k, v)
    corr.nontrivial |= r['nontrivial']
    for k, v in r['tags'].items():
        corr.tag(k, v)
    for inp, m, why in r['dis']:
        corr.disagree('runner', inp, m, why)
    for inp, e, o, why in r['exp']:
        corr.expect_fail('runner', inp, e, o, why)
    for s in r['samples']:
        corr.sample(s)


# ------------------------------------------------------------------ is_disabled (unit level)
def disabled_stream(rng, count):
    kws = ['DISABLE', 'UNSTABLE', 'FAILING', 'SCRIPT', 'SLOW_DOCTEST', 'pytest.skip', 'DISABLE_DOCTEST']
    ws = ['', ' ', '  ', '\t', '\n', ' ', ' ', ' \t ', '\x0b', '​', 'x']
    out = []

    def casing(k):
        r = rng.random()
        if r < 0.3:
            return k
        if r < 0.5:
            return k.lower()
        if r < 0.6:
            return k.upper()
        return ''.join(c.upper() if rng.random() < 0.5 else c.lower() for c in k)

    def exotic(k):
        m = {'s': 'ſ', 'S': 'ſ', 'k': 'K', 'K': 'K', 'i': rng.choice(['İ', 'ı']),
             'I': rng.choice(['İ', 'ı']), '.': rng.choice(['X', '\n', ' ', '.'])}
        return ''.join(m[c] if (c in m and rng.random() < 0.4) else c for c in k)

    for _ in range(count):
        k = casing(rng.choice(kws))
        r = rng.random()
        if r < 0.2:
            k = exotic(k)
        elif r < 0.3 and len(k) > 1:
            i = rng.randrange(len(k))
            k = k[:i] + k[i + 1:]
        elif r < 0.4:
            i = rng.randrange(len(k))
            k = k[:i] + rng.choice('xX_ #') + k[i:]
        head = rng.choice(['>>>', '>>>', '>>>', '>>>', '>>', ' >>>', '>>> >>>', '...', ''])
        src = head + rng.choice(ws) + rng.choice(['#', '#', '#', '##', '', '# #']) + rng.choice(ws) + k + rng.choice(['', ' x', '\n>>> print(1)', '_DOCTEST'])
        out.append(src)
    return out


def disabled_unit(ctx, corr):
    from xdoctest import doctest_example
    rng = ctx.sub_rng('is_disabled')
    srcs = disabled_stream(rng, 4000 if ctx.quick else 60000)
    srcs += [''.join(l + '\n' for l in G.block_lines('disabled', v, 'f:0')) for v in range(G.n_disabled_variants())]
    srcs += [''.join(l + '\n' for l in G.block_lines('pyskip', v, 'f:0')) for v in range(6)]
    srcs = [s for s in srcs if all(not (0xD800 <= ord(c) <= 0xDFFF) for c in s)]
    lines = []
    for s in srcs:
        lines.append('is_disabled\t0\t' + enc(s))
        lines.append('is_disabled\t1\t' + enc(s))
    ans = driver.run_lines(lines)
    for i, s in enumerate(srcs):
        ex = doctest_example.DocTest(docsrc=s)
        for j, py in enumerate((False, True)):
            # the runner calls `is_disabled()` with the default argument
            real = '1' if (ex.is_disabled(pytest=True) if py else ex.is_disabled()) else '0'
            m = ans[2 * i + j]
            corr.count('is_disabled')
            corr.tag('is_disabled:%s' % real)
            if real == '1':
                corr.nontriv(('isd', s, py))
            if m != real:
                corr.disagree('is_disabled', {'docsrc': s, 'pytest': py}, m, real)
    # IGNORECASE equivalents of every pattern character
    from xdoctest import doctest_example as de  # noqa
    allc = ''.join(chr(c) for c in range(0x110000) if not (0xD800 <= c <= 0xDFFF))
    chars = sorted(set(''.join(_current_keywords(ctx))))
    req = ['ci_table\t%d' % ord(c) for c in chars]
    tabs = driver.run_lines(req)
    for c, t in zip(chars, tabs):
        pat = '.' if c == '.' else re.escape(c)
        real = _ranges([ord(x) for x in re.findall(pat, allc, re.IGNORECASE)])
        corr.count('ci_table')
        if t != real:
            corr.disagree('ci_table', {'pattern char': c}, t[:200], real[:200])


def _ranges(cps):
    out = []
    start = prev = None
    for c in cps:
        if start is None:
            start = prev = c
        elif c == prev + 1:
            prev = c
        else:
            out.append('%d-%d' % (start, prev))
            start = prev = c
    if start is not None:
        out.append('%d-%d' % (start, prev))
    return ','.join(out)


def _current_keywords(ctx):
    """keywords after the common prefix in the CURRENT sources (as the translator sees them)"""
    import ast
    p = os.path.join(ctx.repo, 'src', 'xdoctest', 'doctest_example.py')
    kws = []
    try:
        tree = ast.parse(open(p).read())
        for node in ast.walk(tree):
            if isinstance(node, ast.Constant) and isinstance(node.value, str) and node.value.startswith(r'>>>\s*#\s*'):
                kws.append(node.value[len(r'>>>\s*#\s*'):])
    except Exception:
        pass
    return kws or ['DISABLE', 'UNSTABLE', 'FAILING', 'SCRIPT', 'SLOW_DOCTEST', 'pytest.skip']


# ------------------------------------------------------------------ packages: a directory tree named as the module
PKG_KINDS = ['pass', 'failout', 'failexc', 'allskip', 'partskip', 'expexc', 'comment']


def _pkg_plan(rng, tag):
    """{relative path: spec}; function / class names carry the file's tag so that every doctest of the package has its own
    name (the runner names doctests of a package by callname only)"""
    files = ['__init__.py', 'm1.py']
    if rng.random() < 0.8:
        files += ['sub/__init__.py', 'sub/m2.py']
        if rng.random() < 0.4:
            files += ['sub/deep/__init__.py', 'sub/deep/m3.py']
    if rng.random() < 0.3:
        files.append('m4.py')
    plan = {}
    for i, rel in enumerate(files):
        name = '%s_%d' % (tag, i)
        # a package's own __init__ mostly HAS doctests (they must run once, like everything else)
        spec = G.random_spec(name, rng, maxlen=3, kinds=PKG_KINDS, two_prob=0.1, nodoc_prob=0.1 if rel.endswith('__init__.py') else 0.2)
        spec.pop('import_error', None)
        spec.pop('nested', None)
        for f in spec['funcs']:
            f.pop('fmt', None)
            if f.get('cls'):
                f['cls'] = '%sx%d' % (f['cls'], i)
            if f['name'] is not None:
                f['name'] = '%sx%d' % (f['name'], i)
        plan[rel] = spec
    return plan


def _pkg_write(d, pkgname, plan):
    root = os.path.join(d, pkgname)
    for rel, spec in plan.items():
        p = os.path.join(root, rel)
        os.makedirs(os.path.dirname(p), exist_ok=True)
        with open(p, 'w') as f:
            f.write(G.render(spec))
    return root


def _pkg_expected(plan, style, cmd):
    from collections import Counter
    if cmd == 'list':
        names = []
        for spec in plan.values():
            names += G.expected_run(spec, style, 'list', {})['names']
        return {'action': 'list', 'names': sorted(names)}
    tot = {'action': 'run', 'n_total': 0, 'n_passed': 0, 'n_failed': 0, 'n_skipped': 0, 'failed': [], 'ran': [], 'trace': Counter()}
    for spec in plan.values():
        e = G.expected_run(spec, style, cmd, {})
        for k in ('n_total', 'n_passed', 'n_failed', 'n_skipped'):
            tot[k] += e[k]
        tot['failed'] += e['failed']
        tot['ran'] += e['ran']
        tot['trace'].update(e['trace'])
    tot['failed'].sort()
    tot['ran'].sort()
    tot['trace'] = sorted(tot['trace'].items())
    return tot


def _pkg_observe(root, style, cmd, tracefile):
    from collections import Counter
    o = R.observe_native(root, cmd, style, 1 if cmd == 'list' else 0, None, tracefile)
    if o['kind'] == 'raised':
        return {'action': 'raised', 'exc': o['exc']}
    if o['kind'] == 'list':
        return {'action': 'list', 'names': sorted(o['names'])}
    return {'action': 'run', 'n_total': o['n_total'], 'n_passed': o['n_passed'], 'n_failed': o['n_failed'], 'n_skipped': o['n_skipped'],
            'failed': sorted(o['failed']), 'ran': sorted(o['ran']), 'trace': sorted(Counter(o['trace']).items())}


def _pkg_eval(inp, d):
    """-> list of problems (by-construction expectation vs runner.doctest_module on the package directory)"""
    plan, pkgname = inp['plan'], inp['pkg']
    root = _pkg_write(d, pkgname, plan)
    tracefile = os.path.join(d, 'trace.txt')
    exp = _pkg_expected(plan, inp['style'], inp['cmd'])
    obs = _pkg_observe(root, inp['style'], inp['cmd'], tracefile)
    for m in [k for k in sys.modules if k == pkgname or k.startswith(pkgname + '.')]:
        del sys.modules[m]
    bad = []
    if obs['action'] != exp['action']:
        bad.append('action: expected %r, observed %r' % (exp['action'], obs))
    else:
        for k in exp:
            e, o = exp[k], obs.get(k)
            if k == 'trace':
                e, o = [list(x) for x in e], [list(x) for x in o]
            if e != o:
                bad.append('%s: expected %r, observed %r' % (k, e, o))
    return bad, exp, obs


def _pkg_worker(args):
    import tempfile
    import shutil
    seed, shard, count = args
    rng = random.Random('c10pkg:%d:%d' % (seed, shard))
    out = {'suites': {}, 'nontrivial': set(), 'tags': {}, 'dis': [], 'exp': [], 'samples': []}
    for i in range(count):
        pkg = 'xvpk%d_%d_%d' % (seed % 100000, shard, i)
        plan = _pkg_plan(rng, pkg)
        style = rng.choice(['google', 'freeform', 'auto'])
        cmds = ['all', 'list']
        names = []
        for spec in plan.values():
            names += [x['unique'] for x in G.inventory(spec, style) if not G.disabled(x)]
        if names:
            cmds.append(rng.choice(names))
        for cmd in cmds:
            inp = {'package': True, 'pkg': pkg, 'plan': plan, 'style': style, 'cmd': cmd}
            d = tempfile.mkdtemp(prefix='xvpkg-')
            try:
                bad, exp, obs = _pkg_eval(inp, d)
            finally:
                shutil.rmtree(d, ignore_errors=True)
            out['suites']['package'] = out['suites'].get('package', 0) + 1
            out['nontrivial'].add(hash(('pkg', pkg, style, cmd)))
            t = 'package:%s:%s' % ('named' if cmd not in ('all', 'list') else cmd, 'ok' if not bad else 'differs')
            out['tags'][t] = out['tags'].get(t, 0) + 1
            if bad:
                out['exp'].append((inp, exp, obs, '; '.join(bad)))
    return out


def _pkg_hit(inp):
    d = tempfile.mkdtemp(prefix='xvpkg-')
    try:
        bad, exp, obs = _pkg_eval(inp, d)
    finally:
        shutil.rmtree(d, ignore_errors=True)
    if not bad:
        return None
    return {'kind': 'expectation', 'suite': 'runner', 'input': inp, 'expected': exp, 'impl': obs, 'why': '; '.join(bad)}


def _pkg_shrink(inp):
    """fewer files, fewer callables per file (each candidate gets a fresh package name: nothing is cached between tries)"""
    cnt = [0]

    def variant(plan):
        cnt[0] += 1
        return dict(inp, plan=plan, pkg='%s_s%d' % (inp['pkg'], cnt[0]))

    best = inp
    changed = True
    while changed and cnt[0] < 60:
        changed = False
        plan = best['plan']
        for rel in sorted(plan, key=len, reverse=True):
            if rel == '__init__.py':
                continue
            # a directory goes with its __init__
            drop = [r for r in plan if r == rel or (rel.endswith('__init__.py') and r.startswith(rel[:-len('__init__.py')]))]
            cand = variant({r: sp for r, sp in plan.items() if r not in drop})
            if _pkg_hit(cand):
                best, changed = cand, True
                break
        if changed:
            continue
        for rel, sp in plan.items():
            for j in range(len(sp['funcs'])):
                sp2 = dict(sp, funcs=sp['funcs'][:j] + sp['funcs'][j + 1:])
                cand = variant(dict(plan, **{rel: sp2}))
                if best['cmd'] in ('all', 'list') and _pkg_hit(cand):
                    best, changed = cand, True
                    break
            if changed:
                break
    return _pkg_hit(variant(best['plan']))


def package_level(ctx, corr):
    """runner.doctest_module on a PACKAGE directory (root __init__ with doctests, modules, sub-packages): every collected doctest once"""
    n = 2 if ctx.quick else 20
    for r in par.pmap(_pkg_worker, [(ctx.seed, s, n) for s in range(16)]):
        _merge(corr, r)


# ------------------------------------------------------------------ protocol
def correspondence(ctx, corr):
    disabled_unit(ctx, corr)
    colon_cli_level(ctx, corr)
    package_level(ctx, corr)
    nsh = 16
    args = [('exhaustive', s, nsh, ctx.seed, {'maxlen': 3 if ctx.quick else 4, 'quick': ctx.quick}) for s in range(nsh)]
    args += [('random', s, nsh, ctx.seed, {'count': 12 if ctx.quick else 150, 'quick': ctx.quick}) for s in range(nsh)]
    for r in par.pmap(_worker, args):
        _merge(corr, r)
    corr.exhaustive = True
    for r in par.pmap(_cli_worker, [(s, nsh, ctx.seed, 5 if ctx.quick else 40) for s in range(nsh)]):
        _merge(corr, r)
    nm, nc = (3, 4) if ctx.quick else (12, 10)
    jobs = [('opt', (s, nsh, ctx.seed, nm, nc, False)) for s in range(nsh)]
    jobs += [('scale', (i, k, prm, ctx.seed, False)) for i, (k, prm) in enumerate(scale_tasks(ctx.quick))]
    for r in par.pmap(_dispatch, jobs, jobs=16):
        _merge(corr, r)


def _eval_input(inp):
    """(still fails its by-construction expectation?, result) of a recorded input: a case of a module, optionally
    after the calls that preceded it in the same process (`history`), or a treated CLI run"""
    d = tempfile.mkdtemp(prefix='xdocverif-c10s-')
    try:
        spec = inp['spec']
        if 'treated' in inp:
            tr = inp['treated']
            moddir = os.path.join(d, 'mods')
            os.makedirs(moddir)
            path = R.write_module(moddir, spec)
            res = _treated_case(d, spec, path, tr['cmd'], tr['treatment'], tr['channel'], tr['mode'], tr['pty'],
                                os.path.join(d, 't.txt'), use_model=False)
            return bool(res['bad']), res
        cases = list(inp.get('history') or []) + [inp['case']]
        res = R.run_cases(d, spec, cases, os.path.join(d, 't.txt'), use_model=False)[-1]
        return bool(res['bad']), res
    finally:
        shutil.rmtree(d, ignore_errors=True)


def _shrink_hit(inp):
    spec = inp['spec']
    name = spec['name']
    cur = dict(inp)
    # 1. is the history needed at all?  then: as little of it as possible
    hc = [0]

    def with_hist(h):
        hc[0] += 1
        return _eval_input(dict(cur, history=h, spec=dict(spec, name='%s_h%d' % (name, hc[0]))))[0]

    if cur.get('history'):
        if with_hist([]):
            cur['history'] = []
        else:
            cur['history'] = shrink_list(cur['history'], with_hist, max_steps=25)
    # 2. as few callables as possible

    counter = [0]

    def fresh():
        # a NEW module name for every evaluation: a module imported under a name stays in sys.modules, and a later
        # module file of the same name in another directory would be judged against it (K-C10-c)
        counter[0] += 1
        return '%s_s%d' % (name, counter[0])

    def pred(funcs):
        if not funcs:
            return False
        return _eval_input(dict(cur, spec=dict(spec, name=fresh(), funcs=funcs)))[0]

    funcs = shrink_list(spec['funcs'], pred, max_steps=40)
    small = dict(cur, spec=dict(spec, name=fresh(), funcs=funcs))
    ok, res = _eval_input(small)
    if not ok:
        small = dict(cur, spec=dict(spec, name=fresh()))
        ok, res = _eval_input(small)
    small['module_source'] = G.render(small['spec'])
    return {'kind': 'expectation', 'suite': 'runner', 'input': small,
            'expected': _short(res['exp']), 'impl': _short_obs(res['obs']), 'why': '; '.join(res['bad'])}


def search(ctx, corr, broken):
    """failing-input search on the REAL code with the by-construction oracle only (no model)"""
    c2 = type(corr)()
    nsh = 16
    if not corr.expect_failures:
        # nothing failed its by-construction expectation during the correspondence: look wider
        args = [('exhaustive', s, nsh, ctx.seed + 1000, {'maxlen': 3, 'quick': False, 'expect_only': True}) for s in range(nsh)]
        args += [('random', s, nsh, ctx.seed + 1000, {'count': 25, 'quick': False, 'expect_only': True}) for s in range(nsh)]
        for r in par.pmap(_worker, args):
            _merge(c2, r)
        for r in par.pmap(_cli_worker, [(s, nsh, ctx.seed + 1000, 6) for s in range(nsh)]):
            _merge(c2, r)
    cands = [e['input'] for e in list(corr.expect_failures) + list(c2.expect_failures) if 'spec' in e['input']]
    pkg_hits = []
    for e in list(corr.expect_failures):
        if e['input'].get('package') and len(pkg_hits) < 2:
            pkg_hits.append(_pkg_shrink(e['input']))
    # smallest modules first; shrink a few
    cands.sort(key=lambda i: (len(i['spec']['funcs']), len(repr(i))))
    hits = [h for h in pkg_hits if h]
    seen = set()
    for inp in cands[:6]:
        try:
            h = _shrink_hit(inp)
        except Exception as ex:  # noqa
            ctx.note('shrinking raised %r' % (ex,))
            continue
        key = repr(h['input']['spec']['funcs']) + repr(h['input'].get('case') or h['input'].get('treated'))
        if h['why'] and key not in seen:
            seen.add(key)
            hits.append(h)
        if len(hits) >= 3:
            break
    return hits


# ------------------------------------------------------------------ known findings (BaseException in a doctest)
KSRC = {
    'K-C10-a': ('def a():\n    """\n    Example:\n        >>> print(1)\n        2\n    """\n\n'
                'def b():\n    """\n    Example:\n        >>> raise SystemExit(0)\n    """\n'),
    'K-C10-b': ('def a():\n    """\n    Example:\n        >>> print(1)\n        1\n    """\n\n'
                'def b():\n    """\n    Example:\n        >>> raise KeyboardInterrupt\n    """\n\n'
                'def c():\n    """\n    Example:\n        >>> print(1)\n        2\n    """\n'),
}


def _run_witness(kid):
    """(exit status, stdout) of `python -m xdoctest <witness module> all --verbose 1`"""
    import subprocess
    import sys
    d = tempfile.mkdtemp(prefix='xdocverif-c10k-')
    try:
        path = os.path.join(d, 'kmod_%s.py' % kid[-1])
        with open(path, 'w') as f:
            f.write(KSRC[kid])
        p = subprocess.run([sys.executable, '-m', 'xdoctest', path, 'all', '--verbose', '1'], cwd=d, env=R.clean_env(),
                           stdout=subprocess.PIPE, stderr=subprocess.STDOUT, timeout=120)
        return p.returncode, p.stdout.decode('utf8', 'replace')
    finally:
        shutil.rmtree(d, ignore_errors=True)


def classify(ctx, hit):
    """only the two BaseException witnesses: a module in which a doctest raises SystemExit /
    KeyboardInterrupt (never produced by the generators, which raise ValueError)"""
    src = hit.get('input', {}).get('raw_source')
    if src and 'raise SystemExit' in src:
        return 'K-C10-a'
    if src and 'raise KeyboardInterrupt' in src:
        return 'K-C10-b'
    return None


SAMENAME = ('def _modval(x):\n    return "v%d"\n\n\ndef f():\n    """\n    Example:\n        >>> print(_modval(0))\n'
            '        v%d\n    """\n')
SAMENAME_SCRIPT = ('import sys, io, contextlib, xdoctest\nout = []\nfor p in sys.argv[1:]:\n    buf = io.StringIO()\n'
                   '    with contextlib.redirect_stdout(buf):\n        rs = xdoctest.doctest_module(p, command="all", argv=[], verbose=0)\n'
                   '    out.append("%d/%d" % (rs["n_passed"], rs["n_failed"]))\nprint(" ".join(out))\n')


def _witness_samename():
    """two DIFFERENT modules with the same file name in two directories, each with a doctest that passes on its
    own module: tallies of d1, d2, d1 again in ONE process, and of d2 alone in a fresh process"""
    import subprocess
    import sys
    d = tempfile.mkdtemp(prefix='xdocverif-c10k-')
    try:
        paths = []
        for i in (1, 2):
            os.makedirs(os.path.join(d, 'd%d' % i))
            paths.append(os.path.join(d, 'd%d' % i, 'samename_verif.py'))
            with open(paths[-1], 'w') as f:
                f.write(SAMENAME % (i, i))
        run = lambda ps: subprocess.run([sys.executable, '-c', SAMENAME_SCRIPT] + ps, cwd=d, env=R.clean_env(),
                                        stdout=subprocess.PIPE, stderr=subprocess.STDOUT, timeout=120).stdout.decode().strip().splitlines()[-1]
        return run([paths[0], paths[1], paths[0]]), run([paths[1]])
    finally:
        shutil.rmtree(d, ignore_errors=True)


COLON_MOD = ('def f():\n    """\n    Example:\n        >>> print(1)\n        1\n    """\n\n\n'
             'def g():\n    """\n    Example:\n        >>> print(2)\n        3\n\n    Example:\n        >>> print(4)\n        4\n    """\n')
# target -> (exit status, verdict lines) of `python -m xdoctest <path>::<target>` (no command word)
COLON_CASES = {'f': (0, [('P', 'f:0')]), 'g': (1, [('F', 'g:0'), ('P', 'g:1')]), 'g:1': (0, [('P', 'g:1')]), 'g:0': (1, [('F', 'g:0')])}


def _colon_cli(target, extra=()):
    import subprocess
    import sys
    d = tempfile.mkdtemp(prefix='xdocverif-c10k-')
    try:
        path = os.path.join(d, 'colonmod.py')
        with open(path, 'w') as f:
            f.write(COLON_MOD)
        p = subprocess.run([sys.executable, '-m', 'xdoctest', path + '::' + target, '--verbose', '1'] + list(extra), cwd=d, env=R.clean_env(),
                           stdout=subprocess.PIPE, stderr=subprocess.STDOUT, timeout=120)
        return p.returncode, p.stdout.decode('utf8', 'replace')
    finally:
        shutil.rmtree(d, ignore_errors=True)


def _colon_case(target):
    rc, out = _colon_cli(target)
    exp_rc, exp_v = COLON_CASES[target]
    why = []
    if sorted(R.verdict_lines(out)) != sorted(exp_v):
        why.append('verdict lines %r, expected %r' % (R.verdict_lines(out), exp_v))
    if rc != exp_rc:
        why.append('exit status %r, expected %r' % (rc, exp_rc))
    sl = R.summary_line(out)
    nf = sum(1 for v, _ in exp_v if v == 'F')
    if sl is None or sl['failed'] != nf or sl['passed'] != len(exp_v) - nf:
        why.append('summary line %r, expected %d failed, %d passed' % (sl, nf, len(exp_v) - nf))
    return why, rc, out


def colon_cli_level(ctx, corr):
    """`python -m xdoctest path/to/mod.py::name` (the form the pytest front end prints and doctest_module documents), without a
    command word: runs exactly the named doctest(s); tallies and exit status as for any other run (was K-C10-d, repaired by 6244949)"""
    for target in sorted(COLON_CASES):
        corr.count('colon-cli')
        corr.nontriv(('colon', target))
        why, rc, out = _colon_case(target)
        corr.tag('colon-cli:' + ('ok' if not why else 'bad'))
        if why:
            corr.expect_fail('colon-cli', {'colon_cli': target}, {'rc': COLON_CASES[target][0], 'verdicts': COLON_CASES[target][1]},
                             {'rc': rc, 'tail': out[-300:]}, '; '.join(why))


def replay_finding(ctx, finding):
    kid = finding.get('id')
    if kid == 'K-C10-c':
        together, alone = _witness_samename()
        return together == '1/0 0/1 1/0' and alone == '1/0'
    if kid not in KSRC:
        return False
    rc, out = _run_witness(kid)
    vl = R.verdict_lines(out)
    if kid == 'K-C10-a':
        # a:0 failed, then SystemExit(0) left the process: exit status 0, no summary line
        return rc == 0 and ('F', 'a:0') in vl and R.summary_line(out) is None
    sl = R.summary_line(out)
    # b raised KeyboardInterrupt: c (which fails) never ran, "1 / 3 passed", exit status 0
    return rc == 0 and 'Caught CTRL+c' in out and sl is not None and sl['passed'] == 1 and sl['failed'] == 0 \
        and '1 / 3 passed' in out


def replay(ctx, failing):
    inp = failing['input']
    if 'colon_cli' in inp:
        why, rc, out = _colon_case(inp['colon_cli'])
        print('python -m xdoctest colonmod.py::%s --verbose 1  (module:\n%s)' % (inp['colon_cli'], COLON_MOD))
        print('exit status %r; output tail:\n%s' % (rc, out[-400:]))
        print('problems: %s' % ('; '.join(why) or 'none'))
        return bool(why)
    if inp.get('package'):
        inp = dict(inp, pkg=inp['pkg'] + '_r%d' % os.getpid())
        h = _pkg_hit(inp)
        for rel, sp in sorted(inp['plan'].items()):
            print('---- %s/%s\n%s' % (inp['pkg'], rel, G.render(sp)))
        print('runner.doctest_module(<package directory>, command=%r, style=%r)' % (inp['cmd'], inp['style']))
        print('problems: %s' % (h['why'] if h else 'none'))
        return bool(h)
    ok, res = _eval_input(inp)
    print('module:\n' + G.render(inp['spec']))
    if 'treated' in inp:
        tr = inp['treated']
        print('native CLI (%s%s), module named as %s, command %r, arguments %r, environment %r' % (
            tr['channel'], ', stdout is a terminal' if tr['pty'] else '', tr['mode'], tr['cmd'], tr['treatment']['nat'],
            tr['treatment']['env']))
    else:
        for h in inp.get('history') or []:
            print('earlier call in the same process: %r' % ({k: v for k, v in h.items() if k != 'opts'},))
        print('case: %r' % ({k: v for k, v in inp['case'].items() if k != 'opts'},))
    print('expected: %r' % (_short(res['exp']),))
    print('observed: %r' % ({k: v for k, v in _short_obs(res['obs']).items() if k != 'stdout'},))
    print('problems: %s' % ('; '.join(res['bad']) or 'none'))
    return ok

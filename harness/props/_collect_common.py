"""shared plumbing of the collection properties (C07, C08, C16): observation of the REAL code on a
generated module / package, expectations by construction, sharded correspondence workers."""
import contextlib
import importlib
import io
import os
import random
import shutil
import sys
import tempfile
import warnings

from .. import driver, par
from ..codec import enc, dec, enc_list
from ..corr import collect as C
from ..gen import modules as gm

STYLES = ('google', 'freeform', 'auto')


@contextlib.contextmanager
def quiet():
    with warnings.catch_warnings(), contextlib.redirect_stdout(io.StringIO()):
        warnings.simplefilter('ignore')
        yield


@contextlib.contextmanager
def scratch_dir():
    d = tempfile.mkdtemp(prefix='xdocverif-')
    try:
        yield d
    finally:
        shutil.rmtree(d, ignore_errors=True)


_uniq = [0]


def unique_modname(prefix='xdv'):
    _uniq[0] += 1
    return '%s_%d_%d' % (prefix, os.getpid(), _uniq[0])


def write_module(d, source, modname=None):
    modname = modname or unique_modname()
    helper = os.path.join(d, gm.HELPER_NAME + '.py')
    if not os.path.exists(helper):
        with open(helper, 'w', encoding='utf8') as f:
            f.write(gm.HELPER_SOURCE)
    path = os.path.join(d, modname + '.py')
    with open(path, 'wb') as f:
        f.write(C.to_bytes(source))        # BOM / \r\n / cookie as the text's own `# xdv-variant:` line says
    return path, modname


def forget_module(modname):
    sys.modules.pop(modname, None)


# ------------------------------------------------------------------ observations on the real code

def first_part_line(e):
    for p in (e._parts or []):
        if not isinstance(p, str):
            return e.lineno + p.line_offset
    return None


def observe_static(path, style):
    """[[callname, num, lineno, line of the first part, docsrc]] from parse_doctestables(analysis='static')"""
    from xdoctest import core
    with quiet():
        exs = list(core.parse_doctestables(path, style=style, analysis='static'))
    return [[e.callname, e.num, e.lineno, first_part_line(e), e.docsrc] for e in exs], exs


def observe_dynamic(path, style):
    from xdoctest import core
    with quiet():
        exs = list(core.parse_doctestables(path, style=style, analysis='dynamic'))
    return [[e.callname, e.num, e.docsrc] for e in exs]


def observe_inventory(source):
    r, cds = C.real_calldefs(source)
    if cds is None:
        return r
    return [[k, c.docstr is not None] for k, c in cds.items()]


def observe_doclines(source):
    r, cds = C.real_calldefs(source)
    if cds is None:
        return r
    return {k: [c.doclineno, c.doclineno_end] for k, c in cds.items() if c.docstr is not None}


# ------------------------------------------------------------------ expectations by construction

def expected_ids(m, style):
    """[[callname, num, reported line]] : the reported line is the first prompt"""
    return [[cn, num, fp] for (cn, num, fp, bf, d, b) in gm.expected_examples(m, style)]


def prose_first_ids(m, style):
    """examples whose google block body starts with prose/blank (K-C08-a): callname:num -> body first line"""
    return {'%s:%d' % (cn, num): bf for (cn, num, fp, bf, d, b) in gm.expected_examples(m, style)
            if b is not None and b.prose_first}


def exotic_freeform_ids(m, style):
    """examples read in FREEFORM style from a docstring with exotic line-break characters: the parser counts
    splitlines() lines, so their numbers are shifted (K-C08-c); kept out of the line expectations"""
    return set('%s:%d' % (cn, num) for (cn, num, fp, bf, d, b) in gm.expected_examples(m, style) if b is None and d.exotic)


def check_examples(m, style, obs):
    """compare the observation of parse_doctestables with the expectation. returns list of
    (what, expected, observed, finding-tag or None)"""
    exp = expected_ids(m, style)
    out = []
    ids_exp = [[a, b] for a, b, _ in exp]
    ids_obs = [[o[0], o[1]] for o in obs]
    if ids_exp != ids_obs:
        out.append(('identifiers', ids_exp, ids_obs, None))
        return out
    pf = prose_first_ids(m, style)
    kc = exotic_freeform_ids(m, style)
    for (cn, num, fp), o in zip(exp, obs):
        key = '%s:%d' % (cn, num)
        if fp is None or key in kc:
            continue
        if o[2] != fp:
            tag = None
            if key in pf and o[2] == pf[key] and o[3] == fp:
                tag = 'K-C08-a'
            out.append(('lineno of %s' % key, fp, o[2], tag))
        if o[3] != fp:
            out.append(('first part line of %s' % key, fp, o[3], None))
    return out


# ------------------------------------------------------------------ model (driver) side

def model_calldefs(sources):
    lines = ['calldefs\t%s\t%s' % (enc_list(C.as_seen(s).splitlines()), C.module_tokens(s)) for s in sources]
    return driver.run_lines(lines, jobs=1)


def parse_calldefs_answer(ans):
    """-> list of (callname, docstr|None, (start, end)|None)"""
    if not ans.startswith('ok'):
        return None
    body = ans.split('\t', 1)[1] if '\t' in ans else ''
    out = []
    for ent in body.split('|') if body else []:
        k, d, ln = ent.split('/')
        doc = None if d == 'none' else dec(d[5:])
        lines = None if ln == 'none' else tuple(int(x) for x in ln.split(','))
        out.append((dec(k), doc, lines))
    return out


def model_doctestables(sources, style):
    """the composition calldefs -> examples on the model side: per source [[callname, num, lineno, first
    part line or None, docsrc]]"""
    answers = model_calldefs(sources)
    cases = []
    index = []
    for i, a in enumerate(answers):
        cds = parse_calldefs_answer(a)
        if cds is None:
            continue
        for (k, doc, lines) in cds:
            if doc is not None and lines is not None:
                cases.append((style, doc, k, lines[0]))
                index.append(i)
    res = C.model_examples_lines(cases, lambda ls: driver.run_lines(ls, jobs=1))
    out = [[] if parse_calldefs_answer(a) is not None else None for a in answers]
    for (style_, doc, k, ln), i, r in zip(cases, index, res):
        for ent in r.split('|') if r else []:
            num, lineno, docsrc, bt, offs, uniq = ent.split('/')
            out[i].append([k, int(num), int(lineno), dec(docsrc), bt, offs])
    return out, answers

"""C02 — Got/want verdicts are exact: no false pass, no false fail."""
from . import _runloop_common as common
from .. import driver
from ..codec import enc, enc_list

LEAN_TARGETS = ['XdocModel.Proofs.C02', 'XdocModel.Pins.Defaults']
MANIFEST = {
    'text': ("Full for xdoctest's own decision logic: for ALL part lists, execution oracles and configurations the run-loop model "
             "satisfies `want_ok_iff` (a want is satisfied iff some trailing portion of the output since the previous want — or the "
             "value's repr — satisfies check_got_vs_want), `no_want_never_fails`, `failure_stops` (every part before the failing one "
             "ran exactly once in order or was skipped, nothing after it ran), `verdict_trichotomy`, `passed_iff`, "
             "`passed_ran_something` (nothing ran => skipped, never passed). What CPython does when a part is executed is an oracle "
             "(`sem`); the correspondence feeds the recorded primitive results of the real run to the model and compares every "
             "observable of DocTest.run (verdict, failure kind and part, skipped/executed parts, unmatched output), and the "
             "by-construction expectation of the generator (all placements of correct wants pass; every single corruption fails at that "
             "want with the right TRACE) is compared eagerly."),
    'note': ("Trusted: Lean kernel/axioms as audited; hand-written model of DocTest.run, DoctestPart.check, checker.check_got_vs_want "
             "(tied by this correspondence); CPython exec/eval semantics are a parameter of the model; harness recording of primitive "
             "results (monkeypatches checker.check_exception to record the exception line)."),
    'technique': 'Lean 4 proof (loop invariant by induction over the part list) + differential correspondence on generated doctests',
}
RULE = ('doctest programs built from 8 (exhaustive) / 15 (random) statement kinds whose outputs are known by construction; ALL placements '
        'of correct wants (3 kinds: all stdout since previous want / last stdout / value repr) and ALL four single corruptions of one want '
        'for programs of <=2 (quick) / <=3 (thorough) statements, random programs up to 8 statements with prose/blank separators, old and '
        'new prompt styles, on_error return/raise; compared: model `run` answer vs DocTest.run observables AND expectation vs real. '
        'non-trivial = more than one part or a failure; distinct = distinct (text, run options)')
ASSUMPTIONS = ['exec/eval of a compiled part behave as CPython does (parameter `sem` of the model)',
               'the docstring parser is taken as is here (parts come from the real parser); it is modelled under C01/C13']


def correspondence(ctx, corr):
    common.run_family(ctx, corr, 'c02_exhaustive', {'maxlen': 2 if ctx.quick else 3}, nshards=16 if ctx.quick else 64)
    corr.exhaustive = True
    common.run_family(ctx, corr, 'c02_random', {'count': 150 if ctx.quick else 3000})
    part_check_suite(ctx, corr)


def part_check_suite(ctx, corr, quick_n=1500, full_n=20000):
    """DoctestPart.check over trailing outputs, values and flag settings vs the model op `part_check`"""
    # unit level: DoctestPart.check over trailing outputs
    from xdoctest import doctest_part, checker, directive, constants
    rng = ctx.sub_rng('part_check')
    lines = []
    cases = []
    NAMES = ['ELLIPSIS', 'NORMALIZE_WHITESPACE', 'IGNORE_WHITESPACE', 'NORMALIZE_REPR', 'DONT_ACCEPT_BLANKLINE', 'IGNORE_EXCEPTION_DETAIL']
    FLAGSETS = ['110100', '110100', '000010', '100000', '010100', '000100', '001000', '000000', '111100']
    for _ in range(quick_n if ctx.quick else full_n):
        outs = [rng.choice(['a\n', 'b\n', '', 'c\nd\n', '1\n', 'x...b\n']) for _ in range(rng.randint(0, 3))]
        out = rng.choice(['a\n', '', 'b\n', '1\n', 'c\nd\n', '...b\n', 'x...b\n'])
        ev = rng.choice([None, 1, 'a', 'BAD', 'p\nq', "it's", 1.5, 'a  b', 'a  b'])
        joined = ''.join(outs) + out
        want = rng.choice([joined.strip() or 'a', out.strip() or 'zz', 'a', 'b\na', "'a'", '1', 'c d', 'zz', 'b',
                           repr(ev) if ev not in (None, 'BAD') else 'a', str(ev) if ev not in (None, 'BAD') else '1',
                           "'a b'", "'a...'", "'ab'", "'a...b'", '...b', '...' + (out.strip() or 'q'), '...', 'x...b'])
        fl = rng.choice(FLAGSETS)
        if rng.random() < 0.04 and outs:
            # regression of repair ab6e73c: the want is everything written since the previous want, the value's repr raises
            ev, want = 'BAD', (joined.strip() or 'a')
        cases.append((outs, out, ev, want, fl))
        evs = 'N' if ev is None else ('R' if ev == 'BAD' else 'V' + enc(repr(ev)))
        lines.append('part_check\t%s\t%s\t%s\t%s\t%s' % (fl, enc(want), enc(out), evs, enc_list(outs)))
    model = driver.run_lines(lines)
    from ..gen.doctests import BadRepr
    for (outs, out, ev, want, fl), m in zip(cases, model):
        rs = directive.RuntimeState(dict((n, c == '1') for n, c in zip(NAMES, fl)))
        part = doctest_part.DoctestPart(['x'], want_lines=want.split('\n'))
        got_eval = constants.NOT_EVALED if ev is None else (BadRepr() if ev == 'BAD' else ev)
        try:
            part.check(out, got_eval, rs, unmatched=list(outs))
            r = 'ok'
        except checker.GotWantException:
            r = 'differs'
        except checker.ExtractGotReprException:
            r = 'reprerror'
        except Exception as e:
            r = 'raise:' + type(e).__name__
        corr.count('part_check')
        if outs:
            corr.nontriv(('pc', tuple(outs), out, repr(ev), want, fl))
        corr.tag('part_check:' + r)
        if r != m:
            corr.disagree('part_check', {'unmatched': outs, 'stdout': out, 'eval': repr(ev), 'want': want, 'flags': fl}, m, r)


def _spec_part_check(inp):
    """the property sentence, evaluated with the independent re-implementation of the matching relation
    (harness/oracle/checker_spec.py): the want is satisfied iff it matches some trailing portion of the
    output since the previous want, or the repr of the value. Returns True/False, or None when the value's repr raises"""
    from ..oracle import checker_spec
    names = ['ELLIPSIS', 'NORMALIZE_WHITESPACE', 'IGNORE_WHITESPACE', 'NORMALIZE_REPR', 'DONT_ACCEPT_BLANKLINE']
    flags = dict((n, c == '1') for n, c in zip(names, inp['flags']))
    outs = list(inp['unmatched']) + [inp['stdout']]
    cands = [''.join(outs[i:]) for i in range(len(outs))]
    ev = inp['eval']
    if ev == "'BAD'":
        # a value whose repr raises cannot satisfy the want by itself; the output still can (any trailing portion): a
        # match is a pass, no match is a failure (reported as a repr-extraction failure, not a plain got/want error)
        return any(checker_spec.check_output(c, inp['want'], **flags) for c in cands if c) or None
    if ev != 'None':
        cands.append(ev)
    if not inp['stdout'] and ev != 'None':
        cands = [ev] + [c for c in cands[:-1]]
    return any(checker_spec.check_output(c, inp['want'], **flags) for c in cands)


def _real_part_check(inp):
    from xdoctest import doctest_part, checker, directive, constants
    import ast as _ast
    names = ['ELLIPSIS', 'NORMALIZE_WHITESPACE', 'IGNORE_WHITESPACE', 'NORMALIZE_REPR', 'DONT_ACCEPT_BLANKLINE', 'IGNORE_EXCEPTION_DETAIL']
    rs = directive.RuntimeState(dict((n, c == '1') for n, c in zip(names, inp['flags'])))
    part = doctest_part.DoctestPart(['x'], want_lines=inp['want'].split('\n'))
    ev = inp['eval']
    if ev == "'BAD'":
        from ..gen.doctests import BadRepr
        got_eval = BadRepr()
    else:
        got_eval = constants.NOT_EVALED if ev == 'None' else _ast.literal_eval(ev)
    try:
        part.check(inp['stdout'], got_eval, rs, unmatched=list(inp['unmatched']))
        return True
    except (checker.GotWantException, checker.ExtractGotReprException):
        return False


def search(ctx, corr, broken):
    hits = common.search_families(ctx, corr, [('c02_exhaustive', {'maxlen': 2}), ('c02_random', {'count': 400})])
    # unit-level disagreements: decide with the independent specification which side is wrong
    for d in corr.disagreements:
        if d['suite'] != 'part_check':
            continue
        inp = d['input']
        try:
            exp = _spec_part_check(inp)
            if exp is None:
                continue
            real = _real_part_check(inp)
        except Exception:
            continue
        if real != exp:
            hits.append({'kind': 'part_check', 'suite': 'part_check', 'input': inp, 'expected': exp, 'impl': real,
                         'why': 'DoctestPart.check says %s; by the property sentence (some trailing portion of the output since the '
                                'previous want, or the value repr, matches under the enabled normalisations) it is %s' % (real, exp)})
    return hits


def classify(ctx, hit):
    return None


def replay_finding(ctx, finding):
    return False


def replay(ctx, failing):
    if failing.get('kind') == 'part_check':
        real = _real_part_check(failing['input'])
        print('DoctestPart.check(%r) -> %s, expected %s' % (failing['input'], real, failing['expected']))
        return real != failing['expected']
    return common.replay_scenario(failing)

"""C20 — Backwards compatible: what passes under the standard doctest module passes here."""
import contextlib
import io
import itertools
import os
import random
import re

from .. import driver, par
from ..codec import enc, dec, dec_list, dec_opt
from ..shrink import shrink_strings, shrink_list
from ..gen import stdsyntax as G

LEAN_TARGETS = ['XdocModel.Proofs.C20', 'XdocModel.Pins.Checker', 'XdocModel.Pins.Directive', 'XdocModel.Pins.Defaults']
MANIFEST = {
    'text': ("Two executable Lean models side by side: the STANDARD checker (OutputChecker.check_output for the flags a doctest can select "
             "with the property's directives, _ellipsis_match, the traceback/IGNORE_EXCEPTION_DETAIL check) and xdoctest's. Proved for ALL "
             "strings: a standard _ellipsis_match is an xdoctest _ellipsis_match (the pieces correspond one to one, xdoctest's being the "
             "standard ones minus absorbed whitespace); every standard directive switches the corresponding xdoctest flag on; identical "
             "texts pass under both; '# doctest:' is parsed like '# xdoctest:'; the traceback want is recognised with the same message and "
             "the exception check agrees (given the output implication for the compared texts). FULL at checker level: 'standard match => xdoctest match' (stdlib_match_implies_xdoc_match) is proved for ALL got/want, all four flag settings (none, ELLIPSIS, NORMALIZE_WHITESPACE, both) and wants with or without <BLANKLINE>, under the explicit guards (the ELLIPSIS step via C05.ellipsisMatch_collapse; the NORMALIZE_REPR quote step leaves a matching pair alone; the two marker substitutions agree up to whitespace on marker lines, and a marker that is not a marker line forces the marker into got). The UNGUARDED statement is false of the unchanged code: each guard has a "
             "kernel-checked witness, replayed on the real code, and a known-finding entry (K-C20-a..h). Grouping/compile modes, REPL semantics, state across docstrings and text files are observed: checker-level differential run "
             "against CPython's doctest and xdoctest, and generated standard-syntax doctests kept only if the standard module passes them."),
    'note': ("Trusted: Lean kernel, allowed axioms only; the hand-written model of CPython's doctest.py checker (tied to the running "
             "interpreter's doctest module by this run); the xdoctest checker model (C05/C06, regex texts pinned); CPython's compile/exec and "
             "display hook (REPL semantics: the generator's wants come from an independent 'single'-mode execution, texts are kept only if "
             "doctest.DocTestRunner passes them)."),
    'technique': 'Lean 4 proof (simultaneous induction over the two split scans, whitespace-deletion relation) + kernel-evaluated counterexample witnesses + differential correspondence against the standard doctest module',
}
RULE = ("checker level: ops std_vs_xdoc / std_vs_xdoc_nl vs doctest.OutputChecker().check_output(want, got, flags) for the 4 subsets of "
        "{ELLIPSIS, NORMALIZE_WHITESPACE} and xdoctest.checker.check_output under RuntimeState() updated with the parsed '# doctest: +X' "
        "directives: all pairs of token strings of length <= 2 over 19 tokens (quick), <= 3 over reduced alphabets (thorough), mutation-derived "
        "random pairs; the implication std => xdoctest is evaluated on the real code for every pair, also in the end-to-end shape (standard "
        "want with final newline, xdoctest want without); unit ops for _toAscii, the two blank-line substitutions, the split, _ellipsis_match, "
        "_EXCEPTION_RE.match, _strip_exception_details, the exception check. end-to-end: random standard-syntax doctests of 1..6 examples "
        "from 73 example kinds (incl. option directives on continuation lines with silent neighbours, SyntaxError-family and multi-line tracebacks) x layouts (indentation, prose/blank separators, terminating bare '...', header), wants from REPL-semantics "
        "execution, kept only if doctest.DocTestRunner(optionflags=0) passes; must be collected as one doctest, pass and produce the same "
        "TRACE under xdoctest. state: one reused RuntimeState whose flags change in place / through parsed directives between checker calls; 2..4 docstrings run in one "
        "process in random orders with repetitions and same-object re-runs, each occurrence vs the docstring alone in a fresh process and vs the "
        "standard module; scale: docstrings of 20..80 examples, 9..40 continuation lines / markers / wildcards / lines / message lines; text files: "
        "doctest.testfile vs pytest --xdoctest-glob. non-trivial = standard match with got != want (checker) / a doctest the standard module passes (end-to-end); "
        "distinct = distinct (got, want) / distinct text")
ASSUMPTIONS = [
    'scope decision on user options: the property speaks about xdoctest as it comes (default options). Option sets that only switch OFF a '
    'leniency xdoctest adds on top of the standard defaults (NORMALIZE_WHITESPACE, ELLIPSIS, NORMALIZE_REPR) leave it "as strict as the standard '
    'module without flags", which still passes these docstrings; the implication is therefore ALSO checked under those sets (checker level, '
    'end-to-end through config default_runtime_state, --options, XDOCTEST_OPTIONS, --xdoctest-options and in-docstring -OPTION directives) and a '
    'difference there is reported like any other, the one class that exists on the unchanged tree being K-C20-k. Options that make xdoctest '
    'stricter than the standard defaults (DONT_ACCEPT_BLANKLINE, -IGNORE..., REQUIRES, SKIP) are outside the property and not generated',
    'REPL semantics (compile(..., "single"), sys.displayhook) is CPython behaviour, not modelled; the standard doctest module is the oracle',
    'lone surrogates are not generated; str.lower/upper beyond ASCII are outside the directive model',
    'the checker-level guards exclude exactly the classes K-C20-b,d,e,f,g,h; a difference outside them is reported as a violation',
]

TOKENS = ['a', 'u', "'", '"', ' ', '\n', '\t', '.', '...', '\x1b[0m', '\x1b[', '<BLANKLINE>', '\r', '\x0c', '\xe9', '\\xe9', 'True', '1', 'b']
STD_FLAG_SRC = ['', '+NORMALIZE_WHITESPACE', '+ELLIPSIS', '+ELLIPSIS, +NORMALIZE_WHITESPACE']   # index = model order (bit1 EL, bit0 NW)
MARK = '<BLANKLINE>'

_OC = None
_RS = None
_FL = None


def _setup():
    global _OC, _RS, _FL
    if _OC is None:
        import doctest
        from xdoctest import directive
        _OC = doctest.OutputChecker()
        _FL = [0, doctest.NORMALIZE_WHITESPACE, doctest.ELLIPSIS, doctest.ELLIPSIS | doctest.NORMALIZE_WHITESPACE]
        _RS = []
        for src in STD_FLAG_SRC:
            rs = directive.RuntimeState()
            if src:
                ds = list(directive.Directive.extract('>>> x = 1  # doctest: ' + src))
                rs.update(ds)
            _RS.append(rs)
    return _OC, _RS, _FL


def real_std(got, want):
    oc, _, fl = _setup()
    return ''.join('1' if oc.check_output(want, got, f) else '0' for f in fl)


# user option sets that switch OFF a leniency xdoctest has by default and the standard module does not have without a
# flag: xdoctest is then "as strict as the standard defaults" and must still pass what the standard module passes
STRICT_OPTS = {
    'nw_off': {'NORMALIZE_WHITESPACE': False},
    'ell_off': {'ELLIPSIS': False},
    'repr_off': {'NORMALIZE_REPR': False},
    'all_off': {'NORMALIZE_WHITESPACE': False, 'ELLIPSIS': False, 'NORMALIZE_REPR': False},
}
_RS_STRICT = {}


def strict_runstates(opt):
    if opt not in _RS_STRICT:
        from xdoctest import directive
        out = []
        for src in STD_FLAG_SRC:
            rs = directive.RuntimeState(dict(STRICT_OPTS[opt]))
            if src:
                rs.update(list(directive.Directive.extract('>>> x = 1  # doctest: ' + src)))
            out.append(rs)
        _RS_STRICT[opt] = out
    return _RS_STRICT[opt]


def real_xdoc(got, want, opt=None):
    from xdoctest import checker
    _, rss, _ = _setup()
    if opt:
        rss = strict_runstates(opt)
    out = []
    for rs in rss:
        try:
            out.append('1' if checker.check_output(got, want, rs) else '0')
        except Exception:
            out.append('E')
    return ''.join(out)


# ------------------------------------------------------------------ known findings, checker level
def _prefix_changes(s):
    from xdoctest import checker
    a = re.sub(checker.unicode_literal_re, r'\1\2', s)
    return a != s or re.sub(checker.bytes_literal_re, r'\1\2', a) != a


def _ansi_changes(s):
    from xdoctest import utils
    return utils.strip_ansi(s) != s


def _impl_holds(got, want_std, want_x, i, opt=None):
    """the implication std => xdoctest on the real code for flag index i"""
    if real_std(got, want_std)[i] != '1':
        return True
    return real_xdoc(got, want_x, opt)[i] == '1'


EXOTIC_WS = ''.join(chr(c) for c in (0x0b, 0x0c, 0x1c, 0x1d, 0x1e, 0x1f, 0x85, 0xa0, 0x1680, 0x2028, 0x2029, 0x202f, 0x205f, 0x3000)) + \
    ''.join(chr(c) for c in range(0x2000, 0x200b))


def classify_checker(got, want, i, nl, opt=None):
    """-> known finding id or None. Narrow: a class predicate holds AND the difference vanishes when the
    trigger is neutralised. Several triggers may be present in one pair: the neutralisations of the
    classes whose predicate holds are applied cumulatively, in a fixed order, and the pair is attributed
    to the class whose neutralisation makes the difference disappear; if it never disappears: None."""
    if (got, want + '\n' if nl else want) in (('True\n', '1\n'), ('False\n', '0\n')):
        return 'K-C20-e'
    classes = []
    if opt and STRICT_OPTS[opt].get('NORMALIZE_WHITESPACE') is False:
        # K-C20-k (only with NORMALIZE_WHITESPACE switched off by the user): the standard module empties every line of got made
        # of whitespace other than newline, xdoctest strips blanks and tabs only
        classes.append(('K-C20-k', lambda g, w: any(l and l.strip() == '' and l.strip(' \t') != '' for l in g.split('\n')),
                        lambda s, is_got: ''.join(' ' if c in EXOTIC_WS else c for c in s)))
    classes += [
        ('K-C20-d', lambda g, w: any(ord(c) > 127 for c in g + w),
         lambda s, is_got: ''.join(c if ord(c) < 128 else 'Z' for c in s)),
        ('K-C20-b', lambda g, w: MARK in g, lambda s, is_got: s.replace(MARK, '<BLANKLIN>') if is_got else s),
        ('K-C20-f', lambda g, w: _ansi_changes(g) or _ansi_changes(w), lambda s, is_got: s.replace('\x1b', 'E').replace('\x9b', 'E')),
        ('K-C20-g', lambda g, w: _prefix_changes(g) or _prefix_changes(w), lambda s, is_got: s.replace("'", 'q').replace('"', 'q')),
        ('K-C20-h', lambda g, w: any(l.endswith('\r') for l in g.splitlines(True) + w.splitlines(True)),
         lambda s, is_got: s.replace('\r', '0')),
    ]
    g, w = got, want
    for _pass in range(3):      # a neutralisation may expose another trigger (e.g. '\r' hiding a CSI sequence)
        progressed = False
        for kid, pred, neut in classes:
            if pred(g, w):
                g, w = neut(g, True), neut(w, False)
                progressed = True
                if _impl_holds(g, w + '\n' if nl else w, w, i, opt):
                    return kid
        if not progressed:
            break
    return None


# ------------------------------------------------------------------ checker-level suites
def token_strings(tokens, maxlen):
    out = []
    for n in range(maxlen + 1):
        for t in itertools.product(tokens, repeat=n):
            out.append(''.join(t))
    return out


def _compare(pairs):
    """returns (evaluations, nontrivial, tags, disagreements, unclassified implication failures)"""
    n = len(pairs)
    lines = ['std_vs_xdoc\t%s\t%s' % (enc(g), enc(w)) for g, w in pairs]
    lines += ['std_vs_xdoc_nl\t%s\t%s' % (enc(g), enc(w)) for g, w in pairs]
    model = driver.run_lines(lines, jobs=1)
    dis, bad, tags = [], [], {}
    nontriv = 0

    def tag(t):
        tags[t] = tags.get(t, 0) + 1
    for k, (g, w) in enumerate(pairs):
        for nl in (0, 1):
            ws = w + '\n' if nl else w
            m_std, m_x = model[nl * n + k].split(' ')
            r_std = real_std(g, ws)
            if r_std != m_std:
                i = [j for j in range(4) if r_std[j] != m_std[j]][0]
                dis.append(('std_check', {'got': g, 'want': ws, 'std_flags': STD_FLAG_SRC[i]}, m_std[i], r_std[i]))
            if '1' not in r_std and '1' not in m_std:
                tag('std-no-match')
                continue
            r_x = real_xdoc(g, w)
            if r_x != m_x:
                i = [j for j in range(4) if r_x[j] != m_x[j]][0]
                dis.append(('xdoc_check', {'got': g, 'want': w, 'std_flags': STD_FLAG_SRC[i]}, m_x[i], r_x[i]))
            if g != ws:
                nontriv += 1
            for i in range(4):
                if r_std[i] == '1':
                    if r_x[i] == '1':
                        tag('std-match=>xdoc-match')
                    else:
                        kid = classify_checker(g, w, i, nl)
                        if kid:
                            tag('known:' + kid)
                        else:
                            tag('UNCLASSIFIED')
                            if len(bad) < 3:
                                g2, w2 = shrink_strings((g, w), lambda p, i=i, nl=nl: _checker_fails(p[0], p[1], i, nl), max_steps=300)
                                bad.append({'got': g2, 'want': w2, 'std_flags': STD_FLAG_SRC[i], 'i': i, 'nl': nl})
    return 2 * n * 8, nontriv, tags, dis[:40], bad[:40]


def _merge(tot, r):
    tot[0] += r[0]
    tot[1] += r[1]
    for k, v in r[2].items():
        tot[2][k] = tot[2].get(k, 0) + v
    tot[3].extend(r[3][:40 - len(tot[3])])
    tot[4].extend(r[4][:40 - len(tot[4])])


def _shard_tokens(args):
    tokens, maxlen, shard, nshards = args
    strs = token_strings(tokens, maxlen)
    pairs = [(g, w) for i, g in enumerate(strs) if i % nshards == shard for w in strs]
    tot = [0, 0, {}, [], []]
    for i in range(0, len(pairs), 20000):
        _merge(tot, _compare(pairs[i:i + 20000]))
    return tot


MUT_TOKS = TOKENS + ['ab', "u'", 'b"', '  ', '\r\n', 'x\r', '\x1b[31;1m', '....', '\xa0', '_', '0', 'False', '\n<BLANKLINE>\n', '<BLANKLINE>\n',
                     '\U0001F600', ' \n', '\x0b']


def mutate(rng, s):
    op = rng.randint(0, 6)
    if op == 0 or not s:
        i = rng.randint(0, len(s))
        return s[:i] + rng.choice(MUT_TOKS) + s[i:]
    if op == 1:
        i = rng.randint(0, len(s) - 1)
        return s[:i] + s[i + 1:]
    if op in (2, 3):
        i = rng.randint(0, len(s))
        j = min(len(s), i + rng.randint(0, 4))
        return s[:i] + '...' + s[j:]
    if op == 4:
        i = rng.randint(0, len(s))
        return s[:i] + rng.choice([' ', '\n', '\t', '  \n', '\n  ', '   ']) + s[i:]
    if op == 5:
        return s.replace('\n\n', '\n<BLANKLINE>\n', 1)
    i = rng.randint(0, len(s) - 1)
    return s[:i] + rng.choice(MUT_TOKS) + s[i + 1:]


REPEAT_UNITS = ['<BLANKLINE>\n', '\n<BLANKLINE>', '<BLANKLINE>  \n', '...', ' ... ', 'x...', 'line\n', '  \n', 'a  \n', 'a\t\n', '\x0c\n', 'w  ', '\n\n']


def gen_pair(rng):
    if rng.random() < 0.1:
        # MANY occurrences of one construct (a substitution or split that silently stops after N matches only shows beyond N)
        unit = rng.choice(REPEAT_UNITS)
        n = rng.randint(9, 40)
        want = ''.join(unit + (rng.choice(['', 'a', 'b', '1']) if rng.random() < 0.5 else '') for _ in range(n))
        got = want
        r = rng.random()
        if r < 0.6:
            # a got the standard checker accepts for this want: markers as empty lines, wildcards filled in, blanks re-flowed
            k = [0]

            def fill(m):
                k[0] += 1
                return 'v%d' % k[0]
            got = re.sub(r'(?m)^<BLANKLINE>[ \t]*$', '', got)
            got = re.sub(r'\.\.\.', fill, got)
            if rng.random() < 0.5:
                got = re.sub(r'[ \t]+', lambda m: rng.choice([' ', '  ', '\t']), got)
        elif r < 0.8:
            got = mutate(rng, got)
        if rng.random() < 0.3:
            want = mutate(rng, want)
        return got, want
    n = rng.randint(0, 8)
    base = ''.join(rng.choice(TOKENS + ['ab', 'x = 1', "{'k': u'v'}", '\n', '\n\n', 'True\n', 'line one\n', '  indented']) for _ in range(n))
    got = base
    want = base
    for _ in range(rng.randint(0, 3)):
        want = mutate(rng, want)
    if rng.random() < 0.2:
        got = mutate(rng, got)
    if rng.random() < 0.05:
        got, want = rng.choice([('True\n', '1\n'), ('False\n', '0\n'), ('True\n', '1'), ('False', '0')])
    return got, want


def _shard_random(args):
    seed, shard, count = args
    rng = random.Random('c20:%d:%d' % (seed, shard))
    pairs = [gen_pair(rng) for _ in range(count)]
    r = _compare(pairs)
    keys = set(hash(p) for p in pairs if p[0] != p[1])
    return r, keys, pairs[:2]


# ------------------------------------------------------------------ unit ops and the exception check
def _std_exc(exc_got, want, i, detail):
    """the exception branch of DocTestRunner.__run, written from doctest.py"""
    import doctest
    oc, _, fl = _setup()
    m = doctest.DocTestParser._EXCEPTION_RE.match(want)
    if not m:
        return 'boom'
    msg = m.group('msg')
    if oc.check_output(msg, exc_got, fl[i]):
        return '1'
    if detail and oc.check_output(doctest._strip_exception_details(msg), doctest._strip_exception_details(exc_got), fl[i]):
        return '1'
    return '0'


def _xdoc_exc(exc_got, want, i, detail):
    from xdoctest import checker, directive
    rs = directive.RuntimeState()
    src = STD_FLAG_SRC[i] + (', ' if STD_FLAG_SRC[i] and detail else '') + ('+IGNORE_EXCEPTION_DETAIL' if detail else '')
    if src:
        rs.update(list(directive.Directive.extract('>>> x = 1  # doctest: ' + src)))
    try:
        try:
            raise KeyError('active exception for the bare raise')
        except KeyError:
            return '1' if checker.check_exception(exc_got, want, rs) else '0'
    except checker.GotWantException:
        return '0'
    except KeyError:
        return 'reraise'


def gen_exc_case(rng):
    name = rng.choice(['ValueError', 'KeyError', 'mod.sub.MyError', 'E', 'a.', 'Val...'])
    msg = rng.choice(['m1', 'a longer message', "'k'", '', 'multi\nline message', 'x: y.z'])
    got_line = name.split('.')[-1] if rng.random() < 0.3 else name
    exc_got = '%s: %s\n' % (got_line, msg) if msg else got_line + '\n'
    wname = rng.choice([name, name, name.split('.')[-1], 'Other', 'pkg.' + name])
    wmsg = rng.choice([msg, msg, 'other', msg[:2] + '...', ''])
    hdr = rng.choice(['Traceback (most recent call last):', 'Traceback (most recent call last):', 'Traceback (innermost last):',
                      'Traceback (most recent call last):  ', 'Traceback:', 'traceback (most recent call last):'])
    stack = rng.choice(['    ...\n', '  File "<stdin>", line 1, in ?\n', '', '\n', '    ...\n    more stack\n', 'notindented stack\n'])
    lead = rng.choice(['', '', '', 'printed before\n', '\n'])
    want = lead + hdr + '\n' + stack + (wname + ': ' + wmsg if wmsg else wname) + '\n'
    return exc_got, want


def unit_suites(ctx, corr):
    import doctest
    from xdoctest import checker
    rng = ctx.sub_rng('unit')
    strs = token_strings(TOKENS, 2) + [gen_pair(rng)[1] for _ in range(3000 if ctx.quick else 30000)]
    ops = [
        ('std_to_ascii', _setup()[0]._toAscii, dec),
        ('std_blank_want', lambda s: re.sub(r'(?m)^%s\s*?$' % re.escape(doctest.BLANKLINE_MARKER), '', s), dec),
        ('std_blank_got', lambda s: re.sub(r'(?m)^[^\S\n]+$', '', s), dec),
        ('std_split', lambda s: s.split(doctest.ELLIPSIS_MARKER), dec_list),
        ('std_strip_details', doctest._strip_exception_details, dec),
    ]
    for op, f, d in ops:
        model = driver.run_lines(['%s\t%s' % (op, enc(s)) for s in strs])
        for s, m in zip(strs, model):
            corr.count('unit:' + op)
            r = f(s)
            if d(m) != r:
                corr.disagree('unit:' + op, {'text': s}, d(m), r)
    # the two _strip_exception_details are the same function
    for s in strs[:4000]:
        corr.count('unit:strip_details_same')
        if doctest._strip_exception_details(s) != checker._strip_exception_details(s):
            corr.expect_fail('unit:strip_details_same', {'text': s}, doctest._strip_exception_details(s),
                             checker._strip_exception_details(s), 'the two modules strip exception details differently')
    corr.count('table:markers')
    if (doctest.BLANKLINE_MARKER, doctest.ELLIPSIS_MARKER) != (checker.BLANKLINE_MARKER, checker.ELLIPSIS_MARKER):
        corr.expect_fail('table:markers', {}, (doctest.BLANKLINE_MARKER, doctest.ELLIPSIS_MARKER),
                         (checker.BLANKLINE_MARKER, checker.ELLIPSIS_MARKER), 'markers differ from the standard module')
    corr.count('table:exception_re')
    if ' '.join(doctest.DocTestParser._EXCEPTION_RE.pattern.split()) != ' '.join(checker._EXCEPTION_RE.pattern.split()) or \
            doctest.DocTestParser._EXCEPTION_RE.flags != checker._EXCEPTION_RE.flags:
        corr.disagree('table:exception_re', {}, 'same pattern text as the standard module', 'pattern text differs')
    # _ellipsis_match
    pairs = [gen_pair(rng) for _ in range(4000 if ctx.quick else 40000)]
    model = driver.run_lines(['std_ellipsis\t%s\t%s' % (enc(g), enc(w)) for g, w in pairs])
    for (g, w), m in zip(pairs, model):
        corr.count('unit:std_ellipsis')
        r = '1' if doctest._ellipsis_match(w, g) else '0'
        if r != m:
            corr.disagree('unit:std_ellipsis', {'got': g, 'want': w}, m, r)
        if r == '1' and not checker._ellipsis_match(g, w):
            corr.expect_fail('unit:ellipsis_implication', {'got': g, 'want': w}, 'xdoctest _ellipsis_match accepts', 'rejects',
                             'key lemma std_ellipsis_implies_xdoc_ellipsis')
    # corresponding flags
    _, rss, _ = _setup()
    for i, rs in enumerate(rss):
        corr.count('corr_flags')
        bits = '%d%d' % (i >> 1 & 1, i & 1)
        m = driver.ask('corr_flags', bits)
        r = ''.join('1' if rs[k] else '0' for k in ['ELLIPSIS', 'NORMALIZE_WHITESPACE', 'IGNORE_WHITESPACE', 'NORMALIZE_REPR',
                                                     'DONT_ACCEPT_BLANKLINE', 'IGNORE_EXCEPTION_DETAIL'])
        if m != r:
            corr.disagree('corr_flags', {'directives': STD_FLAG_SRC[i]}, m, r)
    # exception extraction and check
    cases = [gen_exc_case(rng) for _ in range(1500 if ctx.quick else 15000)]
    lines = ['std_exc_match\t%s' % enc(w) for _, w in cases]
    for d_ in (0, 1):
        for i in range(4):
            lines += ['std_exc_check\t%d%d%d\t%s\t%s' % (i >> 1 & 1, i & 1, d_, enc(g), enc(w)) for g, w in cases]
    model = driver.run_lines(lines)
    n = len(cases)
    for k, (g, w) in enumerate(cases):
        corr.count('unit:std_exc_match')
        m = doctest.DocTestParser._EXCEPTION_RE.match(w)
        r = m.group('msg') if m else None
        if dec_opt(model[k]) != r:
            corr.disagree('unit:std_exc_match', {'want': w}, dec_opt(model[k]), r)
        if r is not None:
            corr.tag('exc:std-recognises-traceback')
            xr = checker.extract_exc_want(w)
            if xr is None or xr.rstrip('\n') != r.rstrip('\n'):
                corr.expect_fail('exc_extract', {'want': w}, r, xr, 'exc_extract_agrees')
    off = n
    for d_ in (0, 1):
        for i in range(4):
            for k, (g, w) in enumerate(cases):
                corr.count('unit:std_exc_check')
                r = _std_exc(g, w, i, d_)
                m = model[off + k]
                if r != m:
                    corr.disagree('unit:std_exc_check', {'exc_got': g, 'want': w, 'std_flags': STD_FLAG_SRC[i], 'detail': d_}, m, r)
                if r == '1':
                    x = _xdoc_exc(g, w.rstrip('\n'), i, d_)
                    if x == '1':
                        corr.tag('exc:std-pass=>xdoc-pass')
                        corr.nontriv(('exc', g, w, i, d_))
                    else:
                        import doctest as _d
                        mm = _d.DocTestParser._EXCEPTION_RE.match(w).group('msg')
                        kid = None
                        for nl in (0, 1):
                            kid = kid or classify_checker(g, mm.rstrip('\n') if nl else mm, i, nl)
                        if d_ and not _d._strip_exception_details(mm):
                            corr.tag('exc:empty-stripped-name (witness_exc_empty_name)')
                        elif kid:
                            corr.tag('exc:known:' + kid)
                        else:
                            corr.expect_fail('exc_check', {'exc_got': g, 'want': w, 'std_flags': STD_FLAG_SRC[i], 'detail': d_}, 'pass', x,
                                             'exc_check_agrees')
            off += n


# ------------------------------------------------------------------ end-to-end
KINDS_PLAIN = list(G.PLAIN)
LONG_DOC_PROB = [0.004]


def gen_doc(rng):
    if rng.random() < 0.2:
        # a block of silent (want-less, output-less) examples around one example that carries its option
        # directive on a continuation line, no separators: in xdoctest they share one part unless the
        # parser breaks the part at the directive
        pre = [rng.choice(G.SILENT) for _ in range(rng.randint(0, 2))]
        post = [rng.choice(G.SILENT) for _ in range(rng.randint(0, 2))]
        kinds = pre + [rng.choice(G.CONT_DIRECTIVE)] + post + [rng.choice(['expr', 'print', 'strexpr', 'assign'])]
        layout = {'indent': rng.choice(['', '    ']), 'bare_end': sorted(i for i in range(len(kinds)) if rng.random() < 0.15),
                  'sep': {}, 'header': rng.random() < 0.3}
        return kinds, layout
    if rng.random() < LONG_DOC_PROB[0]:
        # SCALE: a docstring with many examples (counts no hand-written test reaches)
        n = rng.randint(20, 80)
        kinds = [rng.choice(KINDS_PLAIN) for _ in range(n)]
        layout = {'indent': rng.choice(['', '    ']), 'bare_end': sorted(i for i in range(n) if rng.random() < 0.2),
                  'sep': {str(i): rng.choice(['blank', 'prose']) for i in range(n) if rng.random() < 0.25}, 'header': rng.random() < 0.3}
        return kinds, layout
    n = rng.randint(1, 6)
    kinds = [rng.choice(KINDS_PLAIN) for _ in range(n)]
    if rng.random() < 0.12:
        kinds[rng.randrange(n)] = rng.choice(sorted(G.TRIGGER))
    layout = {'indent': rng.choice(['', '    ', '        ']), 'bare_end': sorted(i for i in range(n) if rng.random() < 0.3),
              'sep': {str(i): rng.choice(['blank', 'prose']) for i in range(n) if rng.random() < 0.35}, 'header': rng.random() < 0.3}
    return kinds, layout


def build(kinds, layout):
    specs = [G.example(k, i + 1) for i, k in enumerate(kinds)]
    lay = dict(layout)
    lay['bare_end'] = set(layout.get('bare_end', ()))
    lay['sep'] = {int(k): v for k, v in layout.get('sep', {}).items()}
    return G.render(specs, lay)


def e2e_outcome(text, defaults=None):
    """'std-reject' | 'ok' | ('diff', description); defaults = user default_runtime_state for xdoctest (None = its defaults)"""
    f, a, Ts, nex, log = G.std_run(text)
    if f or not a:
        return 'std-reject', None
    x = G.xdoc_run(text, defaults)
    if x['passed'] and x['T'] == Ts and x['collected'] == 1:
        return 'ok', None
    return 'diff', {'std': {'failed': f, 'attempted': a, 'T': Ts}, 'xdoctest': x}


def classify_e2e(kinds, layout, defaults=None):
    """known finding id if the doctest contains exactly one trigger example and the same doctest with
    the trigger replaced by a plain expression example passes under both modules"""
    def finding_of(k):
        if k in G.TRIGGER:
            return G.TRIGGER[k]
        if k in G.TRIGGER_WHEN_OFF and defaults and defaults.get(G.TRIGGER_WHEN_OFF[k][1]) is False:
            return G.TRIGGER_WHEN_OFF[k][0]
        return None
    trig = [i for i, k in enumerate(kinds) if finding_of(k)]
    ids = set(finding_of(kinds[i]) for i in trig)
    base = set(G.TRIGGER[kinds[i]] for i in trig if kinds[i] in G.TRIGGER)
    if not ids or len(base) > 1:
        return None
    ids = base or ids      # option-dependent triggers may accompany ONE ordinary trigger
    k2 = list(kinds)
    for i in trig:
        k2[i] = 'expr'
    text, _ = build(k2, layout)
    o, _ = e2e_outcome(text, defaults)
    if o == 'ok':
        return sorted(ids)[0]
    return None


def shrink_e2e(kinds, layout, defaults=None):
    """drop examples (and the decorative layout) while the doctest still passes under the standard
    module, differs under xdoctest and is not attributable to a known finding"""
    def fails(ks, lay):
        if not ks:
            return False
        text, _ = build(ks, lay)
        o, _d = e2e_outcome(text, defaults)
        return o == 'diff' and classify_e2e(ks, lay, defaults) is None
    plain = {'indent': layout.get('indent', ''), 'header': layout.get('header', False)}
    if fails(kinds, plain):
        k2 = shrink_list(kinds, lambda ks: fails(ks, plain), max_steps=60)
        for lay in ({}, plain):
            if fails(k2, lay):
                return k2, lay
    return kinds, layout


def _shard_e2e(args):
    seed, shard, count = args
    rng = random.Random('c20e:%d:%d' % (seed, shard))
    tags, bad, keys, samples = {}, [], set(), []

    def tag(t):
        tags[t] = tags.get(t, 0) + 1
    for _ in range(count):
        kinds, layout = gen_doc(rng)
        text, T = build(kinds, layout)
        o, d = e2e_outcome(text)
        if o == 'std-reject':
            tag('e2e:std-reject (not kept)')
            continue
        keys.add(hash(text))
        if o == 'ok':
            tag('e2e:std-pass=>xdoc-pass,same-TRACE')
            for k in kinds:
                tag('kind:' + k)
            if len(samples) < 1:
                samples.append({'suite': 'e2e', 'text': text, 'TRACE': T})
            # the same doctest with one leniency of xdoctest switched off by the user (config default_runtime_state)
            opt = rng.choice(sorted(STRICT_OPTS))
            o2, d2 = e2e_outcome(text, STRICT_OPTS[opt])
            if o2 == 'ok':
                tag('e2e-strict:%s:std-pass=>xdoc-pass,same-TRACE' % opt)
            else:
                kid = classify_e2e(kinds, layout, STRICT_OPTS[opt])
                if kid:
                    tag('e2e-strict:%s:known:%s' % (opt, kid))
                else:
                    tag('e2e-strict:UNCLASSIFIED')
                    if len(bad) < 2:
                        k3, l3 = shrink_e2e(kinds, layout, STRICT_OPTS[opt])
                        t3, _ = build(k3, l3)
                        o3, d3 = e2e_outcome(t3, STRICT_OPTS[opt])
                        bad.append({'text': t3, 'kinds': k3, 'layout': l3, 'observed': d3, 'options': STRICT_OPTS[opt]})
            continue
        kid = classify_e2e(kinds, layout)
        if kid:
            tag('e2e:known:' + kid)
        else:
            tag('e2e:UNCLASSIFIED')
            if len(bad) < 2:
                kinds, layout = shrink_e2e(kinds, layout)
                text, _ = build(kinds, layout)
                o, d = e2e_outcome(text)
                bad.append({'text': text, 'kinds': kinds, 'layout': layout, 'observed': d})
    return count, tags, bad, keys, samples




# ------------------------------------------------------------------ user options that make xdoctest stricter
def _strict_pairs(rng, n):
    toks = ['a', ' ', '\n', '\t', '...', MARK, '\x0c', '"', '.', 'b']
    pairs = [(g, w) for g in token_strings(toks, 2) for w in token_strings(toks, 2)]
    for _ in range(n):
        g, w = gen_pair(rng)
        pairs.append((g, w))
        # wants that END with the marker (output ending in an empty line)
        base = ''.join(rng.choice(['a', 'line\n', ' ', 'x = 1\n', '\n', 'b  \n']) for _ in range(rng.randint(0, 4)))
        k = rng.randint(1, 3)
        pairs.append((base + '\n' * k, base + (MARK + '\n') * (k - 1) + MARK))
        pairs.append((base + '\n' * k, base + (MARK + '\n') * k))
        pairs.append((base + '\n' * k, base + '...' + '\n' + (MARK + '\n') * (k - 1) + MARK))
    return pairs


def _shard_strict(args):
    seed, shard, nshards, count = args
    rng = random.Random('c20strict:%d' % seed)
    pairs = [p for j, p in enumerate(_strict_pairs(rng, count)) if j % nshards == shard]
    names = ['ELLIPSIS', 'NORMALIZE_WHITESPACE', 'IGNORE_WHITESPACE', 'NORMALIZE_REPR', 'DONT_ACCEPT_BLANKLINE']
    lines, meta = [], []
    for g, w in pairs:
        for opt in STRICT_OPTS:
            for i, rs in enumerate(strict_runstates(opt)):
                bits = ''.join('1' if rs[k] else '0' for k in names)
                lines.append('check_output\t%s\t%s\t%s' % (bits, enc(g), enc(w)))
                meta.append((g, w, opt, i))
    model = driver.run_lines(lines, jobs=1)
    tags, dis, bad = {}, [], []

    def tag(t):
        tags[t] = tags.get(t, 0) + 1
    cache = {}
    for (g, w, opt, i), m in zip(meta, model):
        key = (g, w, opt)
        if key not in cache:
            cache[key] = real_xdoc(g, w, opt)
        r = cache[key][i]
        if r != m and len(dis) < 20:
            dis.append(('strict:xdoc_check', {'got': g, 'want': w, 'options': STRICT_OPTS[opt], 'std_flags': STD_FLAG_SRC[i]}, m, r))
        for nl in (0, 1):
            wx = w[:-1] if nl and w.endswith('\n') else w
            if nl and not w.endswith('\n'):
                continue
            if real_std(g, w)[i] != '1':
                continue
            rx = r if not nl else real_xdoc(g, wx, opt)[i]
            if rx == '1':
                tag('strict:%s:std-match=>xdoc-match' % opt)
            else:
                kid = classify_checker(g, wx, i, nl, opt)
                if kid:
                    tag('strict:%s:known:%s' % (opt, kid))
                else:
                    tag('strict:UNCLASSIFIED')
                    if len(bad) < 3:
                        g2, w2 = shrink_strings((g, wx), lambda p, i=i, nl=nl, opt=opt: _checker_fails(p[0], p[1], i, nl, opt), max_steps=300)
                        bad.append({'got': g2, 'want': w2, 'std_flags': STD_FLAG_SRC[i], 'i': i, 'nl': nl, 'options': STRICT_OPTS[opt], 'opt': opt})
    return len(meta), tags, dis, bad


def strict_checker(ctx, corr):
    """checker level under the stricter option sets: model == implementation for the flags in force, and the implication
    standard => xdoctest (same texts, and the end-to-end shape: the standard want with its final newline)"""
    nsh = 16
    res = par.pmap(_shard_strict, [(ctx.seed, s, nsh, 120 if ctx.quick else 3000) for s in range(nsh)])
    for n, tags, dis, bad in res:
        corr.count('strict:checker', n)
        for k, v in tags.items():
            corr.tag(k, v)
        for suite, inp, mv, iv in dis:
            corr.disagree(suite, inp, mv, iv)
        for h in bad:
            corr.expect_fail('checker-strict', h, 'xdoctest with this leniency switched off by the user still accepts what the standard checker accepts',
                             'mismatch', 'options: %r' % (h['options'],))


ROUTE_MODULE_HEAD = 'from c20helper import *\n\n\n'


def _std_module(modpath, d):
    import doctest
    import importlib.util
    import sys as _sys
    os.environ['C20_MODE'] = 'std'
    _sys.path.insert(0, d)
    spec = importlib.util.spec_from_file_location('c20routes_mod', modpath)
    mod = importlib.util.module_from_spec(spec)
    spec.loader.exec_module(mod)
    out = {}
    with contextlib.redirect_stdout(io.StringIO()):
        for test in doctest.DocTestFinder().find(mod, 'c20routes_mod'):
            runner = doctest.DocTestRunner(verbose=False, optionflags=0)
            r = runner.run(test, out=lambda s: None)
            out[test.name.split('.')[-1]] = (r.failed, r.attempted)
    return out


def routes_suite(ctx, corr, n=None):
    """the option NORMALIZE_WHITESPACE switched off through every route xdoctest reads user options from: config
    default_runtime_state (API), --options on the command line, XDOCTEST_OPTIONS in the environment, --xdoctest-options under
    pytest, and - where the standard grammar allows it - '# doctest: -NORMALIZE_WHITESPACE' in the docstring (kinds
    *_minus_nw of the generator, in every stream). One module of generated standard-syntax docstrings (many wants END with
    <BLANKLINE>), verdict per route vs the standard module, TRACE through a file"""
    import json
    import shutil
    import subprocess
    import sys as _sys
    import tempfile
    rng = ctx.sub_rng('routes')
    n = n or (8 if ctx.quick else 40)
    END = ['endblank', 'bareprint', 'endblank2', 'endblank_ws', 'endblank_loop', 'endblank_ell', 'blankline2', 'wsline']
    docs = []
    for j in range(n):
        kinds = [rng.choice(END) if rng.random() < 0.6 else rng.choice([k for k in KINDS_PLAIN if k not in G.TRIGGER and not k.startswith('many') and not k.startswith('big')]) for _ in range(rng.randint(1, 2))]
        kinds = [k for k in kinds if not any('"""' in l or "'''" in l for l in G.example(k, 1)['src'])] or ['endblank']
        specs = [G.example(k, q + 1) for q, k in enumerate(kinds)]
        body, _ = G.render(specs, {'indent': '    '})
        docs.append(('f%d' % j, kinds, '    >>> start("f%d")\n%s' % (j, body)))
    d = tempfile.mkdtemp(prefix='xdocverif-c20routes-')
    try:
        with open(os.path.join(d, 'c20helper.py'), 'w') as f:
            f.write(HELPER)
        modpath = os.path.join(d, 'c20routes_mod.py')
        with open(modpath, 'w') as f:
            f.write(ROUTE_MODULE_HEAD)
            for name, kinds, doc in docs:
                f.write('def %s():\n    r"""\n    Docstring in standard syntax.\n\n%s    """\n\n\n' % (name, doc))
        st, std = G.in_child(_std_module, modpath, d)
        if st != 'ok':
            corr.disagree('routes', {'module': open(modpath).read()}, 'standard module runs', std)
            return

        def traces(mode):
            out = {}
            fp = os.path.join(d, 'trace-%s.jsonl' % mode)
            if os.path.exists(fp):
                for line in open(fp):
                    tg, k = json.loads(line)
                    out.setdefault(tg, []).append(k)
                os.remove(fp)
            return out
        std_T = traces('std')
        kept = [name for name, kinds, doc in docs if std.get(name, (1, 0))[0] == 0 and std.get(name, (1, 0))[1]]
        env0 = dict(os.environ)
        env0.pop('XDOCTEST_OPTIONS', None)
        env0['PYTHONPATH'] = d + os.pathsep + env0.get('PYTHONPATH', '')
        routes = [
            ('cli --options=-NORMALIZE_WHITESPACE', [_sys.executable, '-m', 'xdoctest', modpath, 'all', '--nocolor', '--options=-NORMALIZE_WHITESPACE'], {}),
            ('env XDOCTEST_OPTIONS=-NORMALIZE_WHITESPACE', [_sys.executable, '-m', 'xdoctest', modpath, 'all', '--nocolor'], {'XDOCTEST_OPTIONS': '-NORMALIZE_WHITESPACE'}),
            ('pytest --xdoctest-options=-NORMALIZE_WHITESPACE', [_sys.executable, '-m', 'pytest', '-p', 'no:cacheprovider', '--xdoctest-modules', '--xdoctest-options=-NORMALIZE_WHITESPACE', '-q', '--rootdir', d, modpath], {}),
            ('cli default options', [_sys.executable, '-m', 'xdoctest', modpath, 'all', '--nocolor'], {}),
        ]
        for label, cmd, extra in routes:
            env = dict(env0, C20_MODE='xdoc')
            env.update(extra)
            p = subprocess.run(cmd, cwd=d, env=env, stdout=subprocess.PIPE, stderr=subprocess.STDOUT, timeout=600)
            out = p.stdout.decode('utf8', 'replace')
            xT = traces('xdoc')
            corr.count('routes:' + label.split(' ')[0], len(kept))
            for name, kinds, doc in docs:
                if name not in kept:
                    continue
                corr.nontriv(('route', label, doc))
                if xT.get(name, []) == std_T.get(name, []) and not _route_failed(out, name):
                    corr.tag('routes:%s: standard-pass=>xdoctest-pass,same-TRACE' % label)
                else:
                    corr.expect_fail('routes', {'route': label, 'docstring': doc, 'kinds': kinds},
                                     {'standard': 'passes', 'T': std_T.get(name, [])}, {'exit': p.returncode, 'T': xT.get(name, []), 'tail': out[-600:]},
                                     'user option through this route; the standard module passes the docstring with no flags')
        # API route: config default_runtime_state, every stricter option set
        for name, kinds, doc in docs:
            if name not in kept:
                continue
            text = doc.replace('    >>> start("%s")\n' % name, '', 1)
            f, a, Ts, nex, log = G.std_run(text)
            if f or not a:
                continue
            for opt, dflt in STRICT_OPTS.items():
                corr.count('routes:api')
                x = G.xdoc_run(text, dflt)
                if x['passed'] and x['T'] == Ts and x['collected'] == 1:
                    corr.tag('routes:api %s: standard-pass=>xdoctest-pass,same-TRACE' % opt)
                else:
                    corr.expect_fail('e2e-strict', {'text': text, 'kinds': kinds, 'layout': {'indent': '    '}, 'options': dflt},
                                     'passes with the same TRACE', x, 'config default_runtime_state=%r' % (dflt,))
        corr.sample({'suite': 'routes', 'docstring': docs[0][2]}, limit=18)
    finally:
        shutil.rmtree(d, ignore_errors=True)


def _route_failed(out, name):
    """does the runner's report name this docstring as failed"""
    return bool(re.search(r'(FAILED|failed).*\b%s\b|\b%s\b.*(FAILED|failed)|::%s FAILED' % (name, name, name), out))

# ------------------------------------------------------------------ state / repetition
def _shard_seq(args):
    """the same standard-syntax docstrings collected and run repeatedly in ONE process, interleaved with other
    docstrings (directives, expected exceptions after output, flag switches, known-finding triggers): every
    occurrence must behave as the docstring alone in a fresh process, and - when the standard module passes it and
    it carries no known trigger - pass with the standard TRACE"""
    seed, shard, count = args
    rng = random.Random('c20s:%d:%d' % (seed, shard))
    tags, bad = {}, []

    def tag(t):
        tags[t] = tags.get(t, 0) + 1
    steps = 0
    for _ in range(count):
        m = rng.randint(2, 4)
        docs = []
        for _i in range(m):
            kinds, layout = gen_doc(rng)
            if len(kinds) > 8:
                kinds = kinds[:8]
                layout = {'indent': layout.get('indent', '')}
            if rng.random() < 0.5:
                kinds = kinds + [rng.choice(['printraise', 'raise_detail', 'skip', 'ellipsis', 'minus_ell', 'minus_normws', 'raise_then_stdout',
                                             'printraise_detail', 'normws', 'both', 'marker', 'three_in_one'])]
            docs.append((kinds, layout))
        texts = [build(k, l)[0] for k, l in docs]
        order = [rng.randrange(m) for _ in range(rng.randint(m + 1, 2 * m + 2))]
        order.append(order[0])
        rerun = [1 if rng.random() < 0.3 else 0 for _ in order]
        # reference: each docstring alone, in its own fresh process; and the standard module
        alone = []
        for i, text in enumerate(texts):
            st, r = G.in_child(G.xdoc_run, text)
            alone.append({'collected': r['collected'], 'passed': r['passed'], 'T': r['T']} if st == 'ok' else {'error': r})
        std = [G.std_run(text) for text in texts]
        st, seq = G.in_child(G.xdoc_run_seq, texts, order, rerun)
        if st != 'ok':
            bad.append({'texts': texts, 'order': order, 'rerun': rerun, 'observed': 'sequence run died: %r' % (seq,), 'step': None})
            tag('seq:UNCLASSIFIED')
            continue
        for j, i, which, o in seq:
            steps += 1
            exp = alone[i]
            o2 = {'collected': o['collected'], 'passed': o['passed'], 'T': o['T']}
            if o2 != exp:
                tag('seq:UNCLASSIFIED')
                if len(bad) < 3:
                    bad.append({'texts': texts, 'order': order[:j + 1], 'rerun': rerun[:j + 1], 'step': j, 'which': which,
                                'observed': o2, 'alone': exp})
                break
            f, a, Ts = std[i][0], std[i][1], std[i][2]
            if not f and a and not any(k in G.TRIGGER for k in docs[i][0]):
                if not (o['passed'] and o['T'] == Ts and o['collected'] == 1):
                    tag('seq:UNCLASSIFIED')
                    if len(bad) < 3:
                        bad.append({'texts': texts, 'order': order[:j + 1], 'rerun': rerun[:j + 1], 'step': j, 'which': which,
                                    'observed': o2, 'standard': {'failed': f, 'attempted': a, 'T': Ts}})
                    break
                tag('seq:occurrence==alone==standard' + (' (same object re-run)' if which == 'again' else ''))
            else:
                tag('seq:occurrence==alone (standard rejects it or known trigger)')
    return steps, tags, bad


def seq_fails(texts, order, rerun):
    """oracle of the sequence suite on one input; description of the first deviating step or None"""
    alone = []
    for text in texts:
        st, r = G.in_child(G.xdoc_run, text)
        alone.append({'collected': r['collected'], 'passed': r['passed'], 'T': r['T']} if st == 'ok' else {'error': r})
    st, seq = G.in_child(G.xdoc_run_seq, texts, order, rerun)
    if st != 'ok':
        return {'observed': 'sequence run died: %r' % (seq,)}
    for j, i, which, o in seq:
        o2 = {'collected': o['collected'], 'passed': o['passed'], 'T': o['T']}
        if o2 != alone[i]:
            return {'step': j, 'docstring': i, 'which': which, 'observed': o2, 'alone': alone[i]}
    return None


def shrink_seq(texts, order, rerun):
    cur = (list(order), list(rerun))
    changed = True
    while changed and len(cur[0]) > 1:
        changed = False
        for k in range(len(cur[0]) - 1):
            o2 = cur[0][:k] + cur[0][k + 1:]
            r2 = cur[1][:k] + cur[1][k + 1:]
            if seq_fails(texts, o2, r2):
                cur = (o2, r2)
                changed = True
                break
    return cur


XFLAG_NAMES = ['ELLIPSIS', 'NORMALIZE_WHITESPACE', 'IGNORE_WHITESPACE', 'NORMALIZE_REPR', 'DONT_ACCEPT_BLANKLINE']
DIRECTIVE_STEPS = ['+ELLIPSIS', '-ELLIPSIS', '+NORMALIZE_WHITESPACE', '-NORMALIZE_WHITESPACE', '+ELLIPSIS, +NORMALIZE_WHITESPACE',
                   '-ELLIPSIS, -NORMALIZE_WHITESPACE', '+IGNORE_EXCEPTION_DETAIL', '+SKIP', '-ELLIPSIS, +ELLIPSIS', '+NORMALIZE_WHITESPACE, -ELLIPSIS']


def stateful_checker(ctx, corr):
    """checker calls on ONE reused RuntimeState (and one OutputChecker) whose flags change between the calls, both by
    in-place assignment and through parsed '# doctest:' directives (RuntimeState.update, as the run loop does for every
    part): each verdict must be the model's verdict for the flags in force NOW, the standard verdicts those of the std
    model, and the implication std => xdoctest must hold whenever the flags in force are the ones a standard doctest
    runs under"""
    from xdoctest import checker, directive
    oc, _, fl = _setup()
    rng = ctx.sub_rng('stateful-checker')
    pool = [gen_pair(rng) for _ in range(60)] + [('a bb b', 'a...b'), ('a  b', 'a b'), ('x\n\ny', 'x\n<BLANKLINE>\ny'), ('ab', 'a b'),
                                                 ('a\n \nb\n', 'a\n<BLANKLINE>\nb\n'), ('x 12 y', 'x ... y'), ('p\n\n\nq', 'p\n<BLANKLINE>\n<BLANKLINE>\nq')]
    rs = directive.RuntimeState()
    n_steps = 2500 if ctx.quick else 40000
    seq = []
    for _ in range(n_steps):
        g, w = rng.choice(pool)
        how = rng.random()
        if how < 0.4:
            n = rng.randrange(32)
            for b, k in zip((4, 3, 2, 1, 0), XFLAG_NAMES):
                rs[k] = bool(n >> b & 1)
            desc = 'rs[...] = ' + format(n, '05b')
        elif how < 0.9:
            src = rng.choice(DIRECTIVE_STEPS)
            rs.update(list(directive.Directive.extract('>>> x = 1  # doctest: ' + src)))
            desc = 'update(# doctest: %s)' % src
        else:
            rs.update([])
            desc = 'update([])'
        bits = ''.join('1' if rs[k] else '0' for k in XFLAG_NAMES)
        try:
            r = '1' if checker.check_output(g, w, rs) else '0'
        except Exception as ex:
            r = 'E:' + type(ex).__name__
        seq.append((desc, bits, g, w, r))
    model = driver.run_lines(['check_output\t%s\t%s\t%s' % (bits, enc(g), enc(w)) for _, bits, g, w, _ in seq])
    std_model = driver.run_lines(['std_vs_xdoc\t%s\t%s' % (enc(g), enc(w)) for _, _, g, w, _ in seq])
    default_bits = ''.join('1' if directive.RuntimeState()[k] else '0' for k in XFLAG_NAMES)
    for (desc, bits, g, w, r), m, sm in zip(seq, model, std_model):
        corr.count('stateful:check_output')
        if m != r:
            corr.disagree('stateful:check_output', {'got': g, 'want': w, 'flags_in_force': bits, 'last_change': desc,
                                                   'note': 'ONE RuntimeState reused, flags changed between calls'}, m, r)
        rstd = real_std(g, w)
        if rstd != sm.split(' ')[0]:
            corr.disagree('stateful:std_check', {'got': g, 'want': w}, sm.split(' ')[0], rstd)
        if bits == default_bits:
            for i in range(4):
                if rstd[i] == '1' and r != '1':
                    kid = classify_checker(g, w, i, 0)
                    if kid:
                        corr.tag('stateful:known:' + kid)
                    else:
                        corr.expect_fail('checker-stateful', {'got': g, 'want': w, 'i': i, 'nl': 0, 'std_flags': STD_FLAG_SRC[i],
                                                              'last_change': desc}, 'accepts (standard checker accepts)', r,
                                         'verdict on a REUSED RuntimeState whose flags are back to the defaults')
                elif rstd[i] == '1':
                    corr.tag('stateful:std-match=>xdoc-match')
    corr.tag('stateful-steps', len(seq))


# ------------------------------------------------------------------ text files (doctest.testfile semantics)
HELPER = '''
import json, os
_TAG = [None]
T = []


def start(tag):
    _TAG[0] = tag


def t(k):
    T.append(k)
    with open(os.path.join(os.path.dirname(os.path.abspath(__file__)), 'trace-%s.jsonl' % os.environ.get('C20_MODE', 'x')), 'a') as f:
        f.write(json.dumps([_TAG[0], k]) + '\\n')
    return k


def pv(k):
    print('p%d' % k)
    return 'v%d' % k


def boom(k):
    raise KeyError('b%d' % k)


def deco(f):
    return f


def pdeco(obj):
    print('decorated %s' % obj.__name__)
    return obj


def mkexc(dots, nested=False):
    cls = type('Err%d' % dots, (Exception,), {})
    cls.__module__ = '.'.join('pkg%d' % i for i in range(dots)) if dots else 'builtins'
    if nested:
        cls.__qualname__ = 'Outer.Err%d' % dots
    return cls
'''

TEXTFILE_CONFTEST = '''
import json, os, pytest


@pytest.hookimpl(hookwrapper=True)
def pytest_runtest_makereport(item, call):
    outcome = yield
    rep = outcome.get_result()
    if rep.when == 'call' or (rep.when == 'setup' and rep.outcome != 'passed'):
        with open(os.path.join(os.path.dirname(str(item.fspath)), 'results.jsonl'), 'a') as f:
            f.write(json.dumps({'file': os.path.basename(str(item.fspath)), 'outcome': rep.outcome}) + '\\n')
'''


def _std_testfile(path, d):
    import doctest
    import sys as _sys
    os.environ['C20_MODE'] = 'std'
    _sys.path.insert(0, d)
    with contextlib.redirect_stdout(io.StringIO()):
        r = doctest.testfile(path, module_relative=False, verbose=False, report=False, optionflags=0)
    return r.failed, r.attempted


def textfile_docs(rng, n):
    out = []
    for i in range(n):
        kinds, layout = gen_doc(rng)
        kinds = [k for k in kinds if k not in G.TRIGGER][:10] or ['expr']
        specs = [G.example(k, j + 1) for j, k in enumerate(kinds)]
        lay = {'indent': layout.get('indent', ''), 'bare_end': set(layout.get('bare_end', ())),
               'sep': {int(k): v for k, v in layout.get('sep', {}).items() if int(k) < len(kinds)}, 'header': False}
        body, _ = G.render(specs, lay)
        ind = lay['indent']
        text = 'A text file with examples (doctest.testfile semantics).\n\n%s>>> from c20helper import *; start("d%d")\n%s' % (ind, i, body)
        out.append(('d%d.txt' % i, text, kinds))
    return out


def textfile_run(docs):
    """docs: [(basename, text, kinds)]. Returns {basename: {'std': (failed, attempted), 'std_T': [...], 'xdoc': outcome|None, 'xdoc_T': [...]}}"""
    import json
    import shutil
    import subprocess
    import sys as _sys
    import tempfile
    d = tempfile.mkdtemp(prefix='xdocverif-c20txt-')
    try:
        with open(os.path.join(d, 'c20helper.py'), 'w') as f:
            f.write(HELPER)
        with open(os.path.join(d, 'conftest.py'), 'w') as f:
            f.write(TEXTFILE_CONFTEST)
        res = {}
        for base, text, kinds in docs:
            with open(os.path.join(d, base), 'w') as f:
                f.write(text)
            st, r = G.in_child(_std_testfile, os.path.join(d, base), d)
            res[base] = {'std': tuple(r) if st == 'ok' else ('error', r), 'std_T': [], 'xdoc': None, 'xdoc_T': []}
        env = dict(os.environ, C20_MODE='xdoc')
        env['PYTHONPATH'] = d + os.pathsep + env.get('PYTHONPATH', '')
        p = subprocess.run([_sys.executable, '-m', 'pytest', '-p', 'no:cacheprovider', '--xdoctest-glob=*.txt', '--xdoctest-style=freeform',
                            '-q', '--rootdir', d, d], cwd=d, env=env, stdout=subprocess.PIPE, stderr=subprocess.STDOUT, timeout=600)
        tail = p.stdout.decode('utf8', 'replace')[-1500:]
        for mode, key in (('std', 'std_T'), ('xdoc', 'xdoc_T')):
            fp = os.path.join(d, 'trace-%s.jsonl' % mode)
            if os.path.exists(fp):
                for line in open(fp):
                    tagv, k = json.loads(line)
                    base = '%s.txt' % tagv
                    if base in res:
                        res[base][key].append(k)
        rp = os.path.join(d, 'results.jsonl')
        if os.path.exists(rp):
            for line in open(rp):
                rec = json.loads(line)
                if rec['file'] in res:
                    prev = res[rec['file']]['xdoc']
                    res[rec['file']]['xdoc'] = rec['outcome'] if prev in (None, 'passed') else prev
        return res, tail
    finally:
        shutil.rmtree(d, ignore_errors=True)


def textfile_suite(ctx, corr, n=None):
    rng = ctx.sub_rng('textfiles')
    docs = textfile_docs(rng, n or (14 if ctx.quick else 120))
    res, tail = textfile_run(docs)
    for base, text, kinds in docs:
        r = res[base]
        corr.count('textfile')
        if r['std'][0] != 0 or not r['std'][1]:
            corr.tag('textfile:std-reject (not kept)')
            continue
        corr.nontriv(('txt', text))
        if r['xdoc'] == 'passed' and r['xdoc_T'] == r['std_T']:
            corr.tag('textfile:testfile-pass=>pytest-textfile-pass,same-TRACE')
        else:
            corr.expect_fail('textfile', {'textfile': text, 'kinds': kinds},
                             {'standard': 'doctest.testfile passes', 'T': r['std_T']}, {'pytest outcome': r['xdoc'], 'T': r['xdoc_T'], 'tail': tail[-400:]},
                             'text file run by pytest --xdoctest-glob=*.txt')
    corr.sample({'suite': 'textfile', 'text': docs[0][1]}, limit=16)


def correspondence(ctx, corr):
    import xdoctest  # noqa
    _setup()
    # ---- checker level
    if ctx.quick:
        plans = [(TOKENS, 2, 32)]
    else:
        plans = [(TOKENS, 2, 32),
                 (['a', "'", '"', ' ', '\n', '.', '...'], 3, 64),
                 (['a', '\r', ' ', '\n', '...', MARK, '\x0c'], 3, 64),
                 (['a', 'u', 'b', 'r', "'", ' ', '...', '\n'], 3, 64),
                 (['a', ' ', '\n', '...', MARK, '.', 'True', '1', '\xe9'], 3, 64)]
    for tokens, maxlen, nshards in plans:
        res = par.pmap(_shard_tokens, [(tokens, maxlen, s, nshards) for s in range(nshards)])
        for a, b, c, d, bad in res:
            corr.count('checker:tokens%d<=%d' % (len(tokens), maxlen), a)
            corr.nontrivial_extra += b
            for k, v in c.items():
                corr.tag(k, v)
            for suite, inp, mv, iv in d:
                corr.disagree(suite, inp, mv, iv)
            for h in bad:
                corr.expect_fail('checker', h, 'xdoctest accepts what the standard checker accepts', 'mismatch',
                                 'stdlib_match_implies_xdoc_match')
    corr.exhaustive = True
    corr.sample({'op': 'std_vs_xdoc', 'got': 'a\n \nb', 'want': 'a\n<BLANKLINE>\nb', 'note': 'one of the exhaustive-style pairs; 4 standard flag subsets'})
    per = 3500 if ctx.quick else 30000
    res = par.pmap(_shard_random, [(ctx.seed, s, per) for s in range(16)])
    for (a, b, c, d, bad), keys, sm in res:
        corr.count('checker:random-mutations', a)
        corr.nontrivial |= keys
        for k, v in c.items():
            corr.tag('random:' + k, v)
        for suite, inp, mv, iv in d:
            corr.disagree(suite, inp, mv, iv)
        for h in bad:
            corr.expect_fail('checker', h, 'xdoctest accepts what the standard checker accepts', 'mismatch',
                             'stdlib_match_implies_xdoc_match')
        for g, w in sm[:1]:
            corr.sample({'op': 'std_vs_xdoc(+_nl)', 'got': g, 'want': w})
    unit_suites(ctx, corr)
    # ---- end to end
    per = 350 if ctx.quick else 5000
    res = par.pmap(_shard_e2e, [(ctx.seed, s, per) for s in range(16)])
    for n, tags, bad, keys, samples in res:
        corr.count('e2e:generated', n)
        corr.nontrivial |= keys
        for k, v in tags.items():
            corr.tag(k, v)
        for h in bad:
            corr.expect_fail('e2e-strict' if h.get('options') else 'e2e', dict({'text': h['text'], 'kinds': h['kinds'], 'layout': h['layout']}, **({'options': h['options']} if h.get('options') else {})),
                             'collected as one doctest, passes, same TRACE as the standard module', h['observed'],
                             'passes under the standard doctest module')
        for s in samples:
            corr.sample(s, limit=14)
    # ---- state / repetition, text files
    stateful_checker(ctx, corr)
    per = 9 if ctx.quick else 150
    res = par.pmap(_shard_seq, [(ctx.seed, s, per) for s in range(16)])
    for n, tags, bad in res:
        corr.count('e2e:sequence-steps', n)
        for k, v in tags.items():
            corr.tag(k, v)
        for h in bad:
            if h.get('step') is not None:
                o2, r2 = shrink_seq(h['texts'], h['order'], h['rerun'])
                used = sorted(set(o2))
                h = dict(h, texts=[h['texts'][i] for i in used], order=[used.index(i) for i in o2], rerun=r2)
            corr.expect_fail('e2e-seq', {'texts': h['texts'], 'order': h['order'], 'rerun': h['rerun']},
                             'every occurrence behaves like the docstring alone in a fresh process (and like the standard module)',
                             {k: h.get(k) for k in ('step', 'which', 'observed', 'alone', 'standard')},
                             'docstrings collected and run repeatedly in one process')
    corr.sample({'suite': 'e2e-seq', 'note': '2..4 docstrings, run in one process in a random order with repetitions and same-object re-runs'}, limit=16)
    textfile_suite(ctx, corr)
    strict_checker(ctx, corr)
    routes_suite(ctx, corr)


# ------------------------------------------------------------------ verdict plumbing
def classify(ctx, hit):
    inp = hit.get('input') or {}
    if hit.get('suite') in ('e2e', 'e2e-strict') or 'kinds' in inp:
        if 'kinds' in inp and 'layout' in inp:
            return classify_e2e(inp['kinds'], inp['layout'], inp.get('options'))
        return None
    if 'got' in inp and 'i' in inp:
        return classify_checker(inp['got'], inp['want'], inp['i'], inp.get('nl', 0), inp.get('opt'))
    return None


E2E_WITNESS = {
    'K-C20-a': '>>> pv(t(1))\np1\n\'v1\'\n',
    'K-C20-b': '>>> print("<BLANKLINE>", t(1))\n<BLANKLINE> 1\n',
    'K-C20-c': '>>> t(1)\n1\n>>> t(2) * 0 + _\n1\n',
    'K-C20-d': '>>> print("caf\\xe9", t(1))\ncaf\\xe9 1\n',
    'K-C20-e': '>>> t(1) == 1\n1\n',
    'K-C20-f': '>>> print("x\\x1b[0mdone", t(1))  # doctest: +ELLIPSIS\nx...[0mdone 1\n',
    'K-C20-g': '>>> print("u\'x\'", t(1))  # doctest: +ELLIPSIS\nu... 1\n',
    'K-C20-h': '>>> print("a\\rb", t(1))  # doctest: +NORMALIZE_WHITESPACE\na b 1\n',
    'K-C20-j': '>>> q1 = """\n... # doctest: +SKIP\n... """ + str(t(1))\n>>> t(2)\n2\n',
    'K-C20-l': '>>> t(1)\n1\n>>> print(t(2))  # a remark  # doctest: +SKIP\nnot this\n>>> t(3)\n3\n',
    'K-C20-i': '>>> t(1)\n1\n>>> t(2) +\nTraceback (most recent call last):\n    ...\nSyntaxError: invalid syntax\n',
}
# (got, want seen by the standard checker, want seen by xdoctest, flag index) : the kernel-checked witnesses of Proofs/C20.lean
CHECKER_WITNESS = {
    'K-C20-b': ('<BLANKLINE>\n', '<BLANKLINE>\n', '<BLANKLINE>', 0),
    'K-C20-d': ('\xe9', '\\xe9', '\\xe9', 0),
    'K-C20-e': ('True\n', '1\n', '1\n', 0),
    'K-C20-f': ('\x1b[0m', '\x1b[...', '\x1b[...', 2),
    'K-C20-g': ("u'", 'u...', 'u...', 2),
    'K-C20-h': ('a\ra', 'a a', 'a a', 1),
}
# (got, standard want, xdoctest want, flag index, stricter option set): only visible when the user switches a leniency off
STRICT_WITNESS = {
    'K-C20-k': ('\x0c\n"', '\n"', '\n"', 0, 'nw_off'),
}


def replay_finding(ctx, finding):
    kid = finding['id']
    ok = True
    if kid in E2E_WITNESS:
        o, _ = e2e_outcome(E2E_WITNESS[kid])
        ok = ok and o == 'diff'
    if kid in CHECKER_WITNESS:
        g, ws, wx, i = CHECKER_WITNESS[kid]
        ok = ok and real_std(g, ws)[i] == '1' and real_xdoc(g, wx)[i] == '0'
    if kid == 'K-C20-a':
        # the model-level witness: stdout OR value, never their concatenation
        from xdoctest import checker
        try:
            checker.check_got_vs_want('in f 3\n5', 'in f 3\n', 5, _setup()[1][0])
            ok = False
        except checker.GotWantException:
            pass
        ok = ok and real_std('in f 3\n5\n', 'in f 3\n5\n')[0] == '1'
    if kid in STRICT_WITNESS:
        g, ws, wx, i, opt = STRICT_WITNESS[kid]
        ok = ok and real_std(g, ws)[i] == '1' and real_xdoc(g, wx, opt)[i] == '0' and real_xdoc(g, wx)[i] == '1'
    return ok and (kid in E2E_WITNESS or kid in CHECKER_WITNESS or kid in STRICT_WITNESS)


def _checker_fails(g, w, i, nl, opt=None):
    ws = w + '\n' if nl else w
    return real_std(g, ws)[i] == '1' and real_xdoc(g, w, opt)[i] != '1' and classify_checker(g, w, i, nl, opt) is None


def search(ctx, corr, broken):
    """failing-input search on the real code: the standard doctest module is the oracle"""
    found = []
    rng = ctx.sub_rng('search')
    # 1. checker level: recorded candidates, then small exhaustive and random pairs
    cands = []
    for e in corr.expect_failures:
        i = e['input']
        if 'got' in i and 'i' in i:
            cands.append((i['got'], i['want'], i['i'], i.get('nl', 0)))
    for d in corr.disagreements:
        i = d['input']
        if 'got' in i and 'want' in i:
            for fi in range(4):
                for nl in (0, 1):
                    cands.append((i['got'], i['want'].rstrip('\n') if nl else i['want'], fi, nl))
    strs = token_strings(TOKENS, 2)
    small = [(g, w) for g in strs for w in strs]
    rng.shuffle(small)
    for g, w in small[:5000] + [gen_pair(rng) for _ in range(5000)]:
        for fi in range(4):
            for nl in (0, 1):
                cands.append((g, w, fi, nl))
    seen = 0
    for g, w, fi, nl in cands:
        if seen >= 2:
            break
        if _checker_fails(g, w, fi, nl):
            g2, w2 = shrink_strings((g, w), lambda p: _checker_fails(p[0], p[1], fi, nl), max_steps=400)
            found.append({'kind': 'expectation', 'suite': 'checker',
                          'input': {'got': g2, 'want': w2, 'i': fi, 'nl': nl, 'std_flags': STD_FLAG_SRC[fi]},
                          'expected': 'check_output accepts what doctest.OutputChecker accepts', 'impl': 'mismatch'})
            seen += 1
    # 2. end to end: recorded candidates first, then a wider random stream
    e2e_c = [(e['input']['kinds'], e['input']['layout']) for e in corr.expect_failures if 'kinds' in e['input']]
    rng2 = ctx.sub_rng('search-e2e')
    e2e_c += [gen_doc(rng2) for _ in range(400)]
    # every kind alone and in pairs, plain layout
    e2e_c += [([k], {}) for k in KINDS_PLAIN] + [([a, b], {}) for a in KINDS_PLAIN[:12] for b in KINDS_PLAIN[:12]]
    e2e_c += [([a, b, c, 'expr'], {}) for a in G.SILENT for b in G.CONT_DIRECTIVE for c in G.SILENT[:2]]
    n = 0
    for kinds, layout in e2e_c:
        if n >= 3:
            break
        text, _ = build(kinds, layout)
        o, d = e2e_outcome(text)
        if o != 'diff' or classify_e2e(kinds, layout) is not None:
            continue
        k2, lay2 = shrink_e2e(kinds, layout)
        text, _ = build(k2, lay2)
        o, d = e2e_outcome(text)
        found.append({'kind': 'expectation', 'suite': 'e2e', 'input': {'text': text, 'kinds': k2, 'layout': lay2},
                      'expected': 'passes under xdoctest with the same TRACE (the standard module passes it)', 'impl': d})
        n += 1
    return found


def replay(ctx, failing):
    inp = failing['input']
    if 'texts' in inp and 'order' in inp:
        f = seq_fails(inp['texts'], inp['order'], inp.get('rerun') or [0] * len(inp['order']))
        for i, tx in enumerate(inp['texts']):
            print('docstring %d:\n%s' % (i, tx))
        print('order=%r rerun=%r -> %s' % (inp['order'], inp.get('rerun'), f or 'every occurrence behaves like the docstring alone'))
        if f:
            return True
        # or: passes the standard module but not xdoctest (within the sequence)
        return False
    if 'textfile' in inp:
        num = re.search(r'start\("d(\d+)"\)', inp['textfile']).group(1)
        res, tail = textfile_run([('d%s.txt' % num, inp['textfile'], inp.get('kinds', []))])
        r = list(res.values())[0]
        print('text file:\n' + inp['textfile'])
        print('doctest.testfile: failed=%r attempted=%r T=%r ; pytest text file: %r T=%r' % (r['std'][0], r['std'][1], r['std_T'], r['xdoc'], r['xdoc_T']))
        return r['std'][0] == 0 and bool(r['std'][1]) and not (r['xdoc'] == 'passed' and r['xdoc_T'] == r['std_T'])
    if 'route' in inp and 'docstring' in inp:
        text = re.sub(r'^    >>> start\("f\d+"\)\n', '', inp['docstring'], count=1)
        print('route %s (replayed through the API route: config default_runtime_state NORMALIZE_WHITESPACE=False unless the route is the default one)' % inp['route'])
        dflt = None if 'default' in inp['route'] else {'NORMALIZE_WHITESPACE': False}
        o, d = e2e_outcome(text, dflt)
        print('docstring:\n' + text)
        print('outcome now: %s %r' % (o, d))
        return o == 'diff'
    if 'text' in inp:
        o, d = e2e_outcome(inp['text'], inp.get('options'))
        print('text:\n' + inp['text'])
        if inp.get('options'):
            print('xdoctest user options (config default_runtime_state): %r' % (inp['options'],))
        print('outcome now: %s %r' % (o, d))
        if o != 'diff':
            return False
        return classify_e2e(inp['kinds'], inp['layout'], inp.get('options')) is None if 'kinds' in inp and 'layout' in inp else True
    if 'got' in inp and 'i' in inp:
        g, w, i, nl, opt = inp['got'], inp['want'], inp['i'], inp.get('nl', 0), inp.get('opt')
        ws = w + '\n' if nl else w
        print('got=%r standard want=%r xdoctest want=%r directives=%r xdoctest user options=%r -> standard %s, xdoctest %s' % (
            g, ws, w, STD_FLAG_SRC[i], STRICT_OPTS.get(opt), real_std(g, ws)[i], real_xdoc(g, w, opt)[i]))
        return _checker_fails(g, w, i, nl, opt)
    if 'exc_got' in inp:
        i = STD_FLAG_SRC.index(inp['std_flags'])
        a = _std_exc(inp['exc_got'], inp['want'], i, inp['detail'])
        b = _xdoc_exc(inp['exc_got'], inp['want'].rstrip('\n'), i, inp['detail'])
        print('exc_got=%r want=%r -> standard %s, xdoctest %s' % (inp['exc_got'], inp['want'], a, b))
        return a == '1' and b != '1'
    if set(inp) == {'want'}:
        import doctest
        from xdoctest import checker
        m = doctest.DocTestParser._EXCEPTION_RE.match(inp['want'])
        r = m.group('msg') if m else None
        x = checker.extract_exc_want(inp['want'])
        print('want=%r -> standard message %r, xdoctest message %r' % (inp['want'], r, x))
        return r is not None and (x is None or x.rstrip('\n') != r.rstrip('\n'))
    if set(inp) == {'text'}:
        import doctest
        from xdoctest import checker
        a, b = doctest._strip_exception_details(inp['text']), checker._strip_exception_details(inp['text'])
        print('_strip_exception_details(%r): standard %r, xdoctest %r' % (inp['text'], a, b))
        return a != b
    print('no replayable input recorded: %r' % (inp,))
    return False

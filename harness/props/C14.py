"""C14 — Malformed docstrings are contained: bad syntax never crashes collection."""
import contextlib
import io
import os
import random
import shutil
import signal
import tempfile
import warnings

from .. import driver, par
from ..codec import enc, dec
from ..corr import parsercorr, statefulparse
from ..gen import docstrings as G
from ..shrink import shrink_strings, shrink_list

LEAN_TARGETS = ['XdocModel.Proofs.C14', 'XdocModel.Pins.Parser', 'XdocModel.Pins.CoreExamples']
MANIFEST = {
    'text': ("Full for the model, observed for the code: `parse_total` (the model of DoctestParser.parse is a total function, every loop is "
             "structural or has fuel; `intervalStarts_fuel`/`findStart_lt`: the fuel of the balanced_intervals loop is not observable because "
             "the interval end strictly decreases), `parse_error_is_ParseError` + `failpoint_is_phase` + `label_error_classes` + "
             "`group_error_classes` (every failure of a phase is a value that leaves parse as DoctestParseError naming that phase), "
             "`docExamples_never_raises` / `examples_or_warning_{freeform,google,auto}` / `examples_or_warning` (in the model of "
             "core.parse_docstr_examples a parse error or MalformedDocstr becomes a warning, nothing escapes, and the broken docstring "
             "contributes no example - for google/auto: none from the broken block on), `module_is_concat` + `siblings_unaffected` (the "
             "per-docstring loop of parse_doctestables is independent: the examples of the other docstrings are the same lists). "
             "That the real functions behave like the model (no other exception class, no hang) is OBSERVED by this run: outcome class of "
             "DoctestParser().parse and of parse_docstr_examples x {auto, google, freeform} on grammar-fuzzed text with a 5 s alarm per "
             "case, and generated module files through parse_doctestables."),
    'note': ("Trusted: Lean kernel; hand-written models Parser.lean / Lexer.lean / CoreExamples.lean; CPython's ast facts and the google "
             "splitter (docscrape_google.split_google_docblocks) are oracle inputs of the model, taken from the running code; errors raised "
             "inside CPython's tokenizer/ast for input outside the mini-lexer are compared by outcome class; the except clauses of "
             "DoctestParser.parse, core.parse_docstr_examples and parse_auto_docstr_examples are pinned source texts."),
    'technique': 'Lean 4 proof (totality, error-as-value case analysis, fold independence) + fuzzed differential correspondence with hang alarm',
}
RULE = ('strings from a grammar of prompt fragments, brackets, quotes, backslashes, directive fragments, control characters and keywords, '
        'plus damaged well-formed docstrings and google-layout docstrings whose Example blocks are valid or broken by construction: model '
        'ops `parse` and `docexamples` vs DoctestParser().parse and core.parse_docstr_examples x 3 styles (examples, warning, escaping '
        'exception class), module files with one malformed docstring among valid ones through core.parse_doctestables (siblings collected '
        'and run); the same modules identified by path / dotted name / live module object (with and without __file__) / path::callname '
        'and name::callname through the runner x analysis auto/static/dynamic x warnings filter always/error/ignore. non-trivial = the parser rejects the text or a block of it; distinct = distinct (text, style)')
ASSUMPTIONS = [
    "with the warnings filter 'error' in force the caller asked for warnings to be exceptions: the property then demands that the ONLY "
    "exception leaving collection is that warning itself (UserWarning 'Cannot scrape callname=...'); any other class is an escape. "
    "With 'ignore' no warning is observable and only 'no exception, siblings collected' is checked",
    'a live module object combined with analysis=static is API misuse (documented exception), not generated',
    'CPython ast.parse facts are supplied to the model per chunk; the google splitter is an oracle input (its own model belongs to C07)',
    'str.lower in the freeform skip-pattern test is modelled for ASCII',
    'a hang is detected by a 5 s CPU-time alarm per case (ITIMER_PROF, main thread of each worker; wall-clock backstop 300 s)',
]
STYLES = ('auto', 'google', 'freeform')

WITNESS = {
    # google / auto: the blocks before the malformed one were already yielded
    'K-C14-a': "Example:\n    >>> print(1)\n    1\n\nExample:\n    >>> x = (\n",
    # a malformed directive in a comment that is indented after the prompt is not seen by the parser (no PS1 group covers
    # the line); the example is collected without a warning and DocTest.run raises when it reads part.directives
    'K-C14-b': ">>>   # xdoctest: +SKIP(\n",
}


class _Timeout(BaseException):
    """raised by the alarm; NOT an `Exception`, so that the `except Exception` clauses of the code under test
    (which would turn it into a DoctestParseError or a warning) cannot swallow it"""


def _alarm(signum, frame):
    raise _Timeout()


@contextlib.contextmanager
def _limit(seconds=5.0):
    """a hang of the parser is a CPU loop: the limit is on the CPU time of this process (ITIMER_PROF), so that a
    heavily loaded machine (where a 50 ms case can take many wall-clock seconds) never produces a false 'hang';
    a generous wall-clock alarm (60x) stays as a backstop for a blocking hang"""
    signal.signal(signal.SIGPROF, _alarm)
    signal.signal(signal.SIGALRM, _alarm)
    signal.setitimer(signal.ITIMER_PROF, seconds)
    signal.setitimer(signal.ITIMER_REAL, 60.0 * seconds)
    try:
        yield
    finally:
        signal.setitimer(signal.ITIMER_PROF, 0)
        signal.setitimer(signal.ITIMER_REAL, 0)


# ------------------------------------------------------------------ the real code, canonically
def real_outcome_class(docstr):
    """'ok' | 'error:<failpoint>:<class>' | 'escaped:<class>' | 'hang'"""
    try:
        with _limit():
            r, _parts = parsercorr.real_parse(docstr)
    except _Timeout:
        # a stalled worker is not a hang: once more with a longer limit
        try:
            with _limit(20.0):
                r, _parts = parsercorr.real_parse(docstr)
        except _Timeout:
            return 'hang'
    return parsercorr.normalize_error(r.split('\t')[0] if r.startswith('ok') else r)


def _late_error(example):
    """syntax that parse accepted must not blow up afterwards: the directives of every part of a collected example
    (read by DocTest.run outside any try block) can be read"""
    for p in example._parts:
        try:
            p.directives
        except Exception as ex:
            return 'late:%s reading the directives of a collected part' % type(ex).__name__
    return None


def real_docexamples(docstr, style):
    """(n parts of each example, warned, class of the escaping exception or None)"""
    from xdoctest import core
    exs = []
    esc = 'none'
    late = None
    with warnings.catch_warnings(record=True) as w, contextlib.redirect_stdout(io.StringIO()):
        warnings.simplefilter('always')
        try:
            with _limit():
                for e in core.parse_docstr_examples(docstr, callname='f', style=style):
                    exs.append(len(e._parts))
                    late = late or _late_error(e)
        except _Timeout:
            exs = []
            try:
                with _limit(20.0):
                    for e in core.parse_docstr_examples(docstr, callname='f', style=style):
                        exs.append(len(e._parts))
                        late = late or _late_error(e)
            except _Timeout:
                esc = 'hang'
            except Exception as ex:
                esc = 'other:' + type(ex).__name__
        except Exception as ex:
            esc = 'other:' + type(ex).__name__
        nwarn = len([x for x in w if str(x.message).startswith('Cannot scrape callname=')])
    if esc == 'none' and late:
        esc = late
    return exs, nwarn > 0, esc


def google_oracle(docstr):
    """the field of the `docexamples` op describing split_google_docblocks (an oracle input of the model)"""
    from xdoctest.docstr import docscrape_google
    from xdoctest import exceptions
    try:
        with contextlib.redirect_stdout(io.StringIO()):
            blocks = docscrape_google.split_google_docblocks(docstr)
    except exceptions.MalformedDocstr:
        return 'M', []
    except Exception as ex:
        return 'X' + type(ex).__name__, []
    pairs = [(t, b[0]) for t, b in blocks]
    return 'B' + '|'.join(enc(t) + ';' + enc(b) for t, b in pairs), [b for t, b in pairs]


def model_docexamples(docstrs, run_lines):
    """for every docstring the model's answer for the three styles"""
    oracles = [google_oracle(d) for d in docstrs]
    texts = []
    for d, (g, bodies) in zip(docstrs, oracles):
        texts.append(d)
        texts.extend(bodies)
    uniq = list(dict.fromkeys(texts))
    a1 = run_lines(['chunks\t' + enc(t) for t in uniq])
    facts = {}
    for t, a in zip(uniq, a1):
        fs = []
        if a.startswith('ok'):
            for h in a.split('\t')[1:]:
                fs.append(parsercorr.chunk_facts(dec(h[1:])) if h.startswith('H') else 'S')
        facts[t] = '/'.join(fs)
    lines = []
    for d, (g, bodies) in zip(docstrs, oracles):
        table = ['%s=%s' % (enc(t), facts[t]) for t in dict.fromkeys([d] + bodies)]
        for style in STYLES:
            lines.append('\t'.join(['docexamples', style, enc('f'), enc(d), g] + table))
    ans = run_lines(lines)
    return [ans[i * 3:(i + 1) * 3] for i in range(len(docstrs))]


def canon_real(exs, warned, esc):
    return 'ex=%s warned=%d escaped=%s' % (','.join(str(n) for n in exs) or '~', 1 if warned else 0, esc)


def canon_model(ans):
    # drop the diagnostic `end=` field
    return ans.split(' end=')[0]


# ------------------------------------------------------------------ google-layout docstrings, blocks valid / broken by construction
VALID_BODIES = ['>>> print(1 + 1)\n2', '>>> x = 1\n>>> print(x)\n1', '>>> y = [1,\n...      2]\n>>> y\n[1, 2]', 'no test here',
                '>>> # xdoctest: +SKIP\n>>> boom()']
BROKEN_BODIES = ['>>> x = (', '>>> x = [1,\n2]', '>>> def f(:\n...     pass', ">>> s = '''abc", '>>> print(1))', '>>> 1 # xdoctest: +SKIP(',
                 '>>> if x:\n... pass', '>>> 1 # XDOCTEST: +SKIP(', '>>> 1 # XDoc: +SKIP)', '>>> 1  # DOCTEST: +REQUIRES(a',
                 '>>> # XDOCTEST: +REQUIRES(module:os\n>>> 1', '>>> f(1)  # Xdoc: +SKIP)(',
                 # a real SyntaxError whose offending LINE holds braces / percent signs (text that ends up in the warning message)
                 ">>> print 'x = {}'.format(1)", '>>> s = {1, 2} 3', ">>> {'k': 0} = 5", '>>> print "%s %d {0}" % x']
# tags the google splitter turns into blocks of their own; `Benchmark:` / `Script:` / `CommandLine:` are plain text for it
# (they only matter to the freeform skip patterns)
EXAMPLE_TAGS = ('Example', 'Examples', 'Doctest')
TAGS = ['Example', 'Example', 'Doctest', 'Args', 'Returns', 'Notes', 'Benchmark', 'Script', 'Examples', 'CommandLine']


def gen_google(rng):
    """returns (docstring, blocks) with blocks = list of (tag, is_example_tag, body, broken)"""
    blocks = []
    lines = ['Summary line.', '']
    for _ in range(rng.randint(1, 4)):
        tag = rng.choice(TAGS)
        broken = rng.random() < 0.4
        body = rng.choice(BROKEN_BODIES if broken else VALID_BODIES)
        if tag not in EXAMPLE_TAGS:
            body = rng.choice(['x (int): a number', 'some prose', body])
            broken = broken and body in BROKEN_BODIES
        blocks.append((tag, tag in EXAMPLE_TAGS, body, broken))
        # the header pattern is `^(tag) *::? *$`: blanks before and after the colon(s) are part of a legal header
        lines.append(tag + rng.choice([':', ':', ':', '::', ' :', ': ', '  ::  ', ' : ']))
        lines.extend('    ' + l for l in body.split('\n'))
        lines.append('')
    return '\n'.join(lines), blocks


def expectation_google(blocks, style):
    """what the PROPERTY promises: a docstring with broken doctest syntax yields a warning and no example"""
    ex_blocks = [b for b in blocks if b[1]]
    any_broken_example = any(b[3] for b in ex_blocks)
    any_broken = any(b[3] for b in blocks)
    if style == 'google':
        return ('none+warning' if any_broken_example else None)
    if style == 'freeform':
        return ('none+warning' if any_broken else None)
    # auto: google first; if it found nothing, freeform on the whole text
    if any_broken_example:
        return 'none+warning'
    return None


# ------------------------------------------------------------------ workers
def _shard(args):
    seed, shard, n_fuzz, n_damaged, n_google = args
    rng = random.Random('C14:%d:%d' % (seed, shard))
    warnings.simplefilter('ignore', SyntaxWarning)
    cases = []
    for _ in range(n_fuzz):
        cases.append(('fuzz', G.fuzz_docstring(rng), None))
    for _ in range(n_damaged):
        t, _e, _m = G.gen_docstring(rng, max_blocks=4)
        cases.append(('damaged', G.mutate(rng, t), None))
    for _ in range(n_google):
        t, blocks = gen_google(rng)
        cases.append(('google', t, blocks))
    for _ in range(n_google):
        cases.append(('directive', G.fuzz_directive_docstring(rng), None))
    docs = [c[1] for c in cases]
    run1 = lambda lines: driver.run_lines(lines, jobs=1)
    model_parse = parsercorr.model_parse(docs, run1)
    model_doc = model_docexamples(docs, run1)
    out = {'n': 0, 'nontriv': set(), 'tags': {}, 'dis': [], 'exp': [], 'samples': []}
    for (kind, text, blocks), mp, md in zip(cases, model_parse, model_doc):
        mclass = parsercorr.normalize_error(mp.split('\t')[0] if mp.startswith('ok') else mp)
        rclass = real_outcome_class(text)
        out['n'] += 1
        t = kind + ':parse:' + rclass
        out['tags'][t] = out['tags'].get(t, 0) + 1
        if rclass.startswith('escaped') or rclass == 'hang':
            out['exp'].append((text, None, 'parse', 'parts or DoctestParseError', rclass))
            if rclass == 'hang':
                out['tags']['shard aborted after a hang'] = 1
                break       # every further case could cost another 5 s
        elif rclass != mclass:
            out['dis'].append(('parse', text, None, mclass, rclass))
        rejected = rclass.startswith('error')
        hung = False
        for style, m in zip(STYLES, md):
            exs, warned, esc = real_docexamples(text, style)
            r = canon_real(exs, warned, esc)
            out['n'] += 1
            if esc.startswith('late:') and _is_kc14b(text, style):
                out['tags']['K-C14-b shape'] = out['tags'].get('K-C14-b shape', 0) + 1
                if out['tags']['K-C14-b shape'] <= 2:
                    out['exp'].append((text, style, 'docexamples', 'no exception leaves parse_docstr_examples', r, 'known-shape'))
            elif esc != 'none':
                out['exp'].append((text, style, 'docexamples', 'no exception leaves parse_docstr_examples', r))
                if esc == 'hang':
                    hung = True
                    break
            elif r != canon_model(m):
                out['dis'].append(('docexamples', text, style, canon_model(m), r))
            if warned:
                out['nontriv'].add(hash((text, style)))
            t = '%s:%s:%s' % (kind, style, 'warned' if warned else ('examples' if exs else 'nothing'))
            out['tags'][t] = out['tags'].get(t, 0) + 1
            # by construction
            if style == 'freeform' and rejected and (exs or not warned):
                out['exp'].append((text, style, 'docexamples', 'rejected text: no example and a warning', r))
            if blocks is not None:
                e = expectation_google(blocks, style)
                if e == 'none+warning' and (exs or not warned):
                    item = (text, style, 'google-by-construction', 'a broken example block: no example and a warning', r)
                    # the known class is verified here with the same narrow test as `classify`; a few representatives go on
                    if _is_kc14a(text, style):
                        out['tags']['K-C14-a shape'] = out['tags'].get('K-C14-a shape', 0) + 1
                        if out['tags']['K-C14-a shape'] <= 2:
                            out['exp'].append(item + ('known-shape',))
                    else:
                        out['exp'].append(item)
        if hung:
            out['tags']['shard aborted after a hang'] = 1
            break
        if rejected and len(out['samples']) < 1:
            out['samples'].append({'op': 'parse+docexamples', 'docstring': text, 'outcome': rclass})
    # ---- stateful: containment must not depend on what was parsed / collected / run before in this process
    out['seq'] = []
    for _ in range(max(1, len(cases) // 250)):
        pool = []
        for _k in range(rng.randint(1, 3)):
            r = rng.random()
            pool.append(rng.choice(BROKEN_BODIES) if r < 0.3 else G.fuzz_docstring(rng) if r < 0.6 else
                        gen_google(rng)[0] if r < 0.8 else 'Intro.\n\n' + rng.choice(VALID_BODIES))
        sdocs, ops = statefulparse.gen_sequence(rng, docs=pool)
        probs = [p for p in statefulparse.run_sequence(sdocs, ops) if 're-join oracle' not in p['what']]
        out['n'] += len(ops)
        out['tags']['stateful:ops'] = out['tags'].get('stateful:ops', 0) + len(ops)
        if probs:
            out['seq'].append((sdocs, [list(o) for o in ops], probs[:3]))
    out['dis'] = out['dis'][:20]
    out['exp'] = out['exp'][:40]
    out['seq'] = out['seq'][:5]
    return out


# ------------------------------------------------------------------ modules: one malformed docstring among valid ones
CONTROL = ['\r', '\x0b', '\x0c', '\x1c', '\x1d', '\x1e', '\x85', '\u2028', '\u2029']


def _raw_ok(doc):
    return '"""' not in doc and '\\' not in doc and '\x00' not in doc and not doc.endswith('"')


def gen_module(rng, k):
    """returns (source, names, bad) : function f<i> has a valid one-example docstring (marked `# SIBLING`) unless i in bad.
    A docstring is written either as the repr of its text or RAW between triple quotes, so that control characters
    (\\r \\x0b \\x0c \\x1c-\\x1e \\x85 \\u2028 \\u2029) really are in the source file"""
    n = rng.randint(3, 6)
    bad = {}
    src = []
    names = []
    for i in range(n):
        name = 'f%d_%d' % (k, i)
        names.append(name)
        if rng.random() < 0.4:
            r = rng.random()
            if r < 0.35:
                doc = rng.choice(BROKEN_BODIES)
            elif r < 0.55:
                doc = G.fuzz_docstring(rng)
            elif r < 0.7:
                doc = gen_google(rng)[0]
            elif r < 0.85:
                doc = G.fuzz_directive_docstring(rng)
            else:
                doc = rng.choice(BROKEN_BODIES)
            if rng.random() < 0.5:
                # control characters: progress-bar style carriage returns and friends, anywhere in the text
                for _ in range(rng.randint(1, 5)):
                    p = rng.randint(0, len(doc))
                    doc = doc[:p] + rng.choice(CONTROL) + rng.choice(['', '    ', '  50%']) + doc[p:]
            bad[name] = doc
            marker = '# MALFORMED %s' % name
        else:
            doc = 'Text of %s.\n\nExample:\n    >>> print(%d + 1)\n    %d\n' % (name, i, i + 1)
            marker = '# SIBLING %s' % name
        if _raw_ok(doc) and rng.random() < 0.6:
            body = '"""' + doc + '"""'
            if name not in bad:
                body = '"""\n    ' + doc.replace('\n', '\n    ') + '"""'
        else:
            body = repr(doc)
        src.append('%s\ndef %s():\n    %s\n    return %d\n' % (marker, name, body, i))
    return '\n'.join(src), names, bad


def _run_collected(exs, siblings):
    for e in exs:
        e.mode = 'native'
        try:
            with contextlib.redirect_stdout(io.StringIO()), contextlib.redirect_stderr(io.StringIO()):
                with _limit(20.0):
                    r = e.run(on_error='return', verbose=0)
        except _Timeout:
            return 'run of %s hangs' % e.callname
        except Exception as ex:
            return 'run(on_error="return") of the example collected for %s raises %s: the examples after it never run' % (
                e.callname, type(ex).__name__)
        if e.callname in siblings and not r.get('passed'):
            return 'sibling %s does not pass' % e.callname
    return None


def run_modules(ctx, corr, n_modules):
    from xdoctest import core, static_analysis
    rng = ctx.sub_rng('modules')
    tmp = tempfile.mkdtemp(prefix='xdocverif-')
    try:
        for k in range(n_modules):
            source, names, bad = gen_module(rng, k)
            path = os.path.join(tmp, 'mod_c14_%d.py' % k)
            with open(path, 'w', encoding='utf8') as f:
                f.write(source)
            try:
                calldefs = static_analysis.parse_static_calldefs(fpath=path)
            except Exception as ex:
                corr.expect_fail('module', {'module': source, 'style': 'auto'}, 'the module is analysed',
                                 'escaped:' + type(ex).__name__, 'static analysis of a module with a malformed docstring raised')
                continue
            docs = [(n, calldefs[n].docstr) for n in calldefs if calldefs[n].docstr is not None]
            model = model_docexamples([d for _n, d in docs], driver.run_lines)
            for si, style in enumerate(STYLES):
                corr.count('module')
                with warnings.catch_warnings(record=True) as w, contextlib.redirect_stdout(io.StringIO()):
                    warnings.simplefilter('always')
                    esc = None
                    try:
                        with _limit(20.0):
                            exs = list(core.parse_doctestables(path, style=style, analysis='static'))
                    except _Timeout:
                        exs, esc = [], 'hang'
                    except Exception as ex:
                        exs, esc = [], 'escaped:' + type(ex).__name__
                    nwarn = len([x for x in w if str(x.message).startswith('Cannot scrape callname=')])
                got = [e.callname for e in exs]
                inp = {'module': source, 'style': style}
                if esc:
                    corr.expect_fail('module', inp, 'collection goes on', esc, 'an exception stopped the collection of the module')
                    if esc == 'hang':
                        return      # every further module could cost another 20 s
                    continue
                # model: concatenation of the per-docstring results (theorem module_is_concat)
                want_model = []
                mwarn = 0
                for (n, _d), ans in zip(docs, model):
                    a = canon_model(ans[si])
                    cnt = a.split(' ')[0][3:]
                    want_model.extend([n] * (0 if cnt == '~' else len(cnt.split(','))))
                    mwarn += 1 if ' warned=1' in a else 0
                if got != want_model or nwarn != mwarn:
                    corr.disagree('module', inp, {'collected': want_model, 'warnings': mwarn}, {'collected': got, 'warnings': nwarn})
                # by construction: every valid sibling is collected exactly once ...
                siblings = [n for n in names if n not in bad]
                missing = [n for n in siblings if got.count(n) != 1]
                if missing:
                    corr.expect_fail('module', inp, 'siblings collected: %r' % siblings, got, 'a valid sibling is not collected')
                    continue
                # ... and runnable: the examples are run in collection order, as a runner would; an exception that
                # leaves run(on_error='return') for an example of the malformed docstring stops everything after it
                prob = _run_collected(exs, siblings)
                if prob:
                    corr.expect_fail('module', inp, 'siblings runnable', prob, 'a valid sibling does not run')
                if bad:
                    corr.nontriv(('module', source, style))
            if k == 0:
                corr.sample({'op': 'parse_doctestables', 'module': source[:400], 'malformed': sorted(bad)})
    finally:
        shutil.rmtree(tmp, ignore_errors=True)


IDENT_KINDS = ('path', 'name', 'module', 'module_nofile', 'runner:path::callname', 'runner:name::callname', 'runner:path',
               'runner:module')
ANALYSES = ('auto', 'static', 'dynamic')
FILTERS = ('always', 'error', 'ignore')


def _ident_combo_valid(kind, analysis):
    # a live module object can only be analysed dynamically (core.parse_calldefs raises the documented
    # "Static analysis required, but ... requires dynamic analysis" otherwise: API misuse, not a malformed docstring)
    return not (kind in ('module', 'module_nofile') and analysis == 'static')


def _is_the_warning(ex):
    """with warnings promoted to errors the user asked for the warning to BE an exception: the only exception that may
    leave collection then is that warning itself - a UserWarning whose text is the 'Cannot scrape callname=' message"""
    return isinstance(ex, Warning) and str(ex).startswith('Cannot scrape callname=')


def _ident_fails(source, kind, analysis, filt, style, modname='mod_c14_ident'):
    """one way of identifying the module x analysis mode x warnings filter, on the REAL code; returns a problem or None.
    Demanded: no exception leaves collection - except, under the filter 'error', the contained warning itself; when nothing
    is raised every valid sibling is collected exactly once (and, through the runner, runs and passes); under 'always' a
    module with a docstring the parser rejects produces at least one warning."""
    import importlib.util
    import re
    import sys
    import types
    from xdoctest import core, runner
    siblings = re.findall(r"^# SIBLING (\w+)$", source, re.M)
    tmp = tempfile.mkdtemp(prefix='xdocverif-')
    saved_path = list(sys.path)
    try:
        path = os.path.join(tmp, modname + '.py')
        with open(path, 'w', encoding='utf8') as f:
            f.write(source)
        sys.path.insert(0, tmp)
        sys.modules.pop(modname, None)
        ident = path
        if kind in ('name',):
            ident = modname
        elif kind in ('module', 'runner:module'):
            spec = importlib.util.spec_from_file_location(modname, path)
            ident = importlib.util.module_from_spec(spec)
            spec.loader.exec_module(ident)
        elif kind == 'module_nofile':
            ident = types.ModuleType(modname)
            exec(compile(source, '<' + modname + '>', 'exec'), ident.__dict__)
        target = siblings[0] if siblings else None
        if kind in ('runner:path::callname', 'runner:name::callname') and target is None:
            return None
        exs = None
        summary = None
        with warnings.catch_warnings(record=True) as w, contextlib.redirect_stdout(io.StringIO()), \
                contextlib.redirect_stderr(io.StringIO()):
            warnings.simplefilter(filt)
            try:
                with _limit(30.0):
                    if kind.startswith('runner:'):
                        if kind == 'runner:path::callname':
                            summary = runner.doctest_module(path + '::' + target, argv=[''], style=style, analysis=analysis, verbose=0)
                        elif kind == 'runner:name::callname':
                            summary = runner.doctest_module(modname + '::' + target, argv=[''], style=style, analysis=analysis, verbose=0)
                        else:
                            summary = runner.doctest_module(ident, 'all', argv=[''], style=style, analysis=analysis, verbose=0)
                    else:
                        exs = list(core.parse_doctestables(ident, style=style, analysis=analysis))
            except _Timeout:
                return {'observed': 'hang', 'expected_by_spec': 'collection returns'}
            except BaseException as ex:
                if filt == 'error' and _is_the_warning(ex):
                    return None         # the contained warning, promoted by the filter the caller installed
                return {'observed': 'escaped %s: %s' % (type(ex).__name__, str(ex)[:120]),
                        'expected_by_spec': 'no exception leaves collection (under the filter "error": only the warning itself)'}
            nwarn = len([x for x in w if str(x.message).startswith('Cannot scrape callname=')])
        if exs is not None:
            got = [e.callname for e in exs]
            missing = [n for n in siblings if got.count(n) != 1]
            if missing:
                return {'observed': 'collected %r' % got, 'expected_by_spec': 'every valid sibling exactly once: %r' % siblings}
        else:
            want = 1 if '::' in kind else len(siblings)
            if summary.get('n_passed', 0) < want:
                return {'observed': 'runner summary n_passed=%r n_failed=%r' % (summary.get('n_passed'), summary.get('n_failed')),
                        'expected_by_spec': 'at least %d valid sibling(s) run and pass' % want}
        return None
    finally:
        sys.path[:] = saved_path
        sys.modules.pop(modname, None)
        shutil.rmtree(tmp, ignore_errors=True)


def run_identifiers(ctx, corr, n_modules):
    """every way of identifying a module x every analysis mode x the warnings filters, on modules with a malformed docstring"""
    rng = ctx.sub_rng('identifiers')
    for k in range(n_modules):
        source, names, bad = gen_module(rng, 1000 + k)
        if not bad:
            source = source + '\n# MALFORMED g%d\ndef g%d():\n    %r\n    return 0\n' % (k, k, rng.choice(BROKEN_BODIES))
        for kind in IDENT_KINDS:
            for analysis in ANALYSES:
                if not _ident_combo_valid(kind, analysis):
                    continue
                for filt in FILTERS:
                    style = rng.choice(STYLES)
                    corr.count('identifiers')
                    corr.tag('ident:%s:%s:%s' % (kind, analysis, filt))
                    f = _ident_fails(source, kind, analysis, filt, style, modname='mod_c14i_%d' % k)
                    if f:
                        if f['observed'] == 'hang':
                            corr.expect_fail('identifiers', {'module': source, 'ident': kind, 'analysis': analysis, 'filter': filt, 'style': style},
                                             f['expected_by_spec'], f['observed'], 'collection hangs')
                            return
                        corr.expect_fail('identifiers', {'module': source, 'ident': kind, 'analysis': analysis, 'filter': filt,
                                                         'style': style}, f['expected_by_spec'], f['observed'],
                                         'collection of a module with a malformed docstring')
                    corr.nontriv(('ident', source, kind, analysis, filt))


def run_fault_injection(ctx, corr):
    """the splitter of the current tree can not raise MalformedDocstr (its only raise sits under `if False`), so the
    branch of parse_docstr_examples / parse_google_docstr_examples that downgrades it is exercised by injection: the
    splitter is replaced by one that raises MalformedDocstr; model: google oracle `M`"""
    from xdoctest import core, exceptions
    rng = ctx.sub_rng('inject')
    docs = [gen_google(rng)[0] for _ in range(20)] + [G.fuzz_docstring(rng) for _ in range(20)] + ['', '>>> print(1)\n1']
    orig = core.docscrape_google.split_google_docblocks

    def raising(docstr):
        raise exceptions.MalformedDocstr('injected')
    # model
    a1 = driver.run_lines(['chunks\t' + enc(t) for t in docs])
    lines = []
    for d, a in zip(docs, a1):
        fs = []
        if a.startswith('ok'):
            for h in a.split('\t')[1:]:
                fs.append(parsercorr.chunk_facts(dec(h[1:])) if h.startswith('H') else 'S')
        for style in STYLES:
            lines.append('\t'.join(['docexamples', style, enc('f'), enc(d), 'M', '%s=%s' % (enc(d), '/'.join(fs))]))
    ans = driver.run_lines(lines)
    core.docscrape_google.split_google_docblocks = raising
    try:
        for i, d in enumerate(docs):
            for si, style in enumerate(STYLES):
                exs, warned, esc = real_docexamples(d, style)
                r = canon_real(exs, warned, esc)
                m = canon_model(ans[i * 3 + si])
                corr.count('inject-malformed')
                inp = {'docstring': d, 'style': style, 'inject': 'MalformedDocstr'}
                if esc != 'none' and not esc.startswith('late:'):
                    corr.expect_fail('inject-malformed', inp, 'MalformedDocstr is downgraded to a warning', r,
                                     'an exception left parse_docstr_examples')
                elif r != m and not esc.startswith('late:'):
                    corr.disagree('inject-malformed', inp, m, r)
                if style == 'google' and (exs or not warned) and esc == 'none':
                    corr.expect_fail('inject-malformed', inp, 'no example and a warning', r, 'MalformedDocstr in google style')
                corr.nontriv(('inject', d, style))
    finally:
        core.docscrape_google.split_google_docblocks = orig


def correspondence(ctx, corr):
    warnings.simplefilter('ignore', SyntaxWarning)
    # many small shards: bounded memory per worker
    n_fuzz, n_dam, n_goo, n_shards = (600, 350, 200, 32) if ctx.quick else (1000, 600, 300, 320)
    res = par.pmap(_shard, [(ctx.seed, s, n_fuzz, n_dam, n_goo) for s in range(n_shards)])
    n_known_forwarded = [0]
    for r in res:
        corr.count('parse+docexamples', r['n'])
        corr.nontrivial |= r['nontriv']
        for k, v in r['tags'].items():
            corr.tag(k, v)
        for suite, text, style, m, i in r['dis']:
            corr.disagree(suite, {'docstring': text, 'style': style}, m, i)
        for item in r['exp']:
            text, style, suite, expected, impl = item[:5]
            if len(item) == 6:
                n_known_forwarded[0] += 1
                if n_known_forwarded[0] > 8:
                    continue
            inp = {'docstring': text, 'style': style}
            if suite == 'google-by-construction':
                inp['by_construction'] = 'broken example block'
            corr.expect_fail(suite, inp, expected, impl,
                             'containment: parts or DoctestParseError; warning and no example; no hang')
        for s in r['samples'][:1]:
            corr.sample(s)
        for sdocs, ops, probs in r.get('seq', []):
            corr.expect_fail('stateful', {'docstrings': sdocs, 'sequence': ops},
                             'the same outcome (parts / error class, examples, warning) every time, nothing escapes', probs,
                             'containment must not depend on what happened earlier in the process')
    run_modules(ctx, corr, 40 if ctx.quick else 400)
    run_identifiers(ctx, corr, 6 if ctx.quick else 60)
    run_fault_injection(ctx, corr)


# ------------------------------------------------------------------ failing-input search (real code only)
def _fails(text, style=None):
    from xdoctest import parser, exceptions
    rejected = False
    try:
        with _limit():
            with warnings.catch_warnings():
                warnings.simplefilter('ignore')
                parser.DoctestParser().parse(text)
    except _Timeout:
        return {'observed': 'hang (> 5 s)', 'expected_by_spec': 'parse returns', 'api': 'DoctestParser().parse(docstring)'}
    except exceptions.DoctestParseError:
        rejected = True
    except Exception as ex:
        return {'observed': 'escaped ' + type(ex).__name__, 'expected_by_spec': 'parts or DoctestParseError',
                'api': 'DoctestParser().parse(docstring)'}
    for st in ([style] if style else STYLES):
        exs, warned, esc = real_docexamples(text, st)
        api = 'list(core.parse_docstr_examples(docstring, style=%r))' % st
        if esc != 'none':
            return {'observed': esc, 'expected_by_spec': 'no exception, at most a warning', 'api': api, 'style': st}
        if st == 'freeform' and rejected and (exs or not warned):
            return {'observed': canon_real(exs, warned, esc), 'expected_by_spec': 'a warning and no example', 'api': api, 'style': st}
    return None


def _fails_google(text, blocks, style):
    e = expectation_google(blocks, style)
    exs, warned, esc = real_docexamples(text, style)
    if esc != 'none':
        return {'observed': esc, 'expected_by_spec': 'no exception', 'style': style}
    if e == 'none+warning' and (exs or not warned):
        return {'observed': canon_real(exs, warned, esc), 'expected_by_spec': 'a warning and no example', 'style': style,
                'api': 'list(core.parse_docstr_examples(docstring, style=%r))' % style}
    return None


def _module_fails(source, style):
    """siblings of generated module text: every function whose docstring is the standard valid one is collected"""
    from xdoctest import core
    tmp = tempfile.mkdtemp(prefix='xdocverif-')
    try:
        path = os.path.join(tmp, 'mod_c14_replay.py')
        with open(path, 'w', encoding='utf8') as f:
            f.write(source)
        import re
        siblings = re.findall(r"^# SIBLING (\w+)$", source, re.M)
        with warnings.catch_warnings(record=True), contextlib.redirect_stdout(io.StringIO()):
            warnings.simplefilter('always')
            try:
                with _limit(20.0):
                    exs = list(core.parse_doctestables(path, style=style, analysis='static'))
            except _Timeout:
                return {'observed': 'hang', 'expected_by_spec': 'collection goes on'}
            except Exception as ex:
                return {'observed': 'escaped ' + type(ex).__name__, 'expected_by_spec': 'collection goes on'}
        got = [e.callname for e in exs]
        missing = [n for n in siblings if got.count(n) != 1]
        if missing:
            return {'observed': 'collected %r' % got, 'expected_by_spec': 'siblings %r collected' % siblings}
        prob = _run_collected(exs, siblings)
        if prob:
            return {'observed': prob, 'expected_by_spec': 'siblings runnable'}
        return None
    finally:
        shutil.rmtree(tmp, ignore_errors=True)


def _shrink_module(source, still_fails):
    """drop whole functions (marker + def) while the failure persists"""
    import re
    chunks = re.split(r'(?m)^(?=# (?:SIBLING|MALFORMED) )', source)
    chunks = [c for c in chunks if c]
    kept = shrink_list(chunks, lambda cs: still_fails(''.join(cs)), max_steps=40)
    return ''.join(kept)


def search(ctx, corr, broken):
    found = []
    # 1. what the correspondence already saw
    for e in corr.expect_failures:
        i = e['input']
        if 'sequence' in i:
            probs = _seq_problems(i['docstrings'], i['sequence'])
            if probs:
                ops = shrink_list(i['sequence'], lambda o: bool(_seq_problems(i['docstrings'], o)), max_steps=100)
                found.append({'input': {'docstrings': i['docstrings'], 'sequence': ops},
                              'observed': (_seq_problems(i['docstrings'], ops) or probs)[0],
                              'expected_by_spec': 'the same contained outcome every time', 'api': 'the sequence of calls, in one process'})
            continue
        if i.get('inject'):
            f = _fails_injected(i['docstring'], i['style'])
            if f:
                found.append({'input': dict(i), **f})
            continue
        if 'ident' in i:
            f = _ident_fails(i['module'], i['ident'], i['analysis'], i['filter'], i['style'])
            if f:
                src = _shrink_module(i['module'], lambda m: _ident_fails(m, i['ident'], i['analysis'], i['filter'], i['style']) is not None)
                f = _ident_fails(src, i['ident'], i['analysis'], i['filter'], i['style']) or f
                found.append({'input': dict(i, module=src), **f})
        elif 'module' in i:
            f = _module_fails(i['module'], i['style'])
            if f:
                found.append({'input': {'module': i['module'], 'style': i['style']}, **f})
        elif e['suite'] == 'google-by-construction':
            continue        # already a hit of its own (run_check turns every expectation failure into one)
        else:
            f = _fails(i['docstring'], i.get('style'))
            if f:
                found.append({'input': {'docstring': i['docstring'], 'style': f.get('style', i.get('style'))}, **f})
        if len(found) >= 4:
            return found
    cands = [d['input']['docstring'] for d in corr.disagreements if 'docstring' in d['input']]
    rng = ctx.sub_rng('search')
    for text in ('', '>>> print(1)\n1', 'Example:\n    >>> print(1)\n    1\n'):
        for st in STYLES:
            f = _fails_injected(text, st)
            if f:
                found.append({'input': {'docstring': text, 'style': st, 'inject': 'MalformedDocstr'}, **f})
                return found
    for _ in range(2500 if ctx.quick else 20000):
        cands.append(G.fuzz_docstring(rng))
        cands.append(G.fuzz_directive_docstring(rng))
        t, _e, _m = G.gen_docstring(rng, max_blocks=3)
        cands.append(G.mutate(rng, t))
    seen = set()
    for text in cands:
        if text in seen:
            continue
        seen.add(text)
        f = _fails(text)
        if f:
            st = f.get('style')
            if 'hang' not in str(f.get('observed')):
                (text,) = shrink_strings((text,), lambda p: _fails(p[0], st) is not None, max_steps=800)
                f = _fails(text, st) or f
            else:
                (text,) = shrink_strings((text,), lambda p: 'hang' in str((_fails(p[0], st) or {}).get('observed')), max_steps=12)
            found.append({'input': {'docstring': text, 'style': st}, **f})
            if len(found) >= 3:
                return found
    for _ in range(400):
        t, blocks = gen_google(rng)
        for st in STYLES:
            f = _fails_google(t, blocks, st)
            if f:
                found.append({'input': {'docstring': t, 'style': st, 'by_construction': 'broken example block'}, **f})
                break
        if len(found) >= 3:
            return found
    for k in range(4):
        source, names, bad = gen_module(rng, 2000 + k)
        source += '\n# MALFORMED gx\ndef gx():\n    %r\n    return 0\n' % BROKEN_BODIES[0]
        for kind in IDENT_KINDS:
            for analysis in ANALYSES:
                if not _ident_combo_valid(kind, analysis):
                    continue
                for filt in FILTERS:
                    f = _ident_fails(source, kind, analysis, filt, 'auto')
                    if f:
                        found.append({'input': {'module': source, 'ident': kind, 'analysis': analysis, 'filter': filt, 'style': 'auto'}, **f})
                        return found
    for k in range(60):
        source, names, bad = gen_module(rng, k)
        for st in STYLES:
            f = _module_fails(source, st)
            if f:
                found.append({'input': {'module': source, 'style': st}, **f})
                return found
    return found


def _is_kc14a(text, style):
    """K-C14-a, narrow: google/auto style, examples were yielded although a later example block is broken, and exactly the
    example blocks BEFORE the first block the parser rejects were yielded, with a warning"""
    if style not in ('google', 'auto'):
        return False
    from xdoctest.docstr import docscrape_google
    try:
        blocks = docscrape_google.split_google_docblocks(text)
    except Exception:
        return False
    bodies = [b[0] for t, b in blocks if t.startswith(('Example', 'Doctest', 'Script', 'Benchmark'))]
    first_bad = next((k for k, b in enumerate(bodies) if real_outcome_class(b).startswith('error')), None)
    exs, warned, esc = real_docexamples(text, style)
    if first_bad is None or first_bad == 0 or esc != 'none' or not warned:
        return False
    return len(exs) == first_bad


INDENTED_COMMENT = None


def _is_kc14b(text, style):
    """K-C14-b, narrow: the failure is a LATE error (parse accepted the text, reading the directives of a collected part
    raises); the text has a source line carrying a comment that no PS1 statement covers - a comment-only line whose `#` is
    indented after the prompt (`>>>   # ...`, or a prompt preceded by whitespace that is not a blank) or a `...`-prompted
    line with a `#`; and with every such line rewritten as a
    plain `>>> ` line (comment at the prompt column) the same text is contained (rejected with a warning, or fine)"""
    import re
    p1 = re.compile(r'^([ ]*)>>>[ ]{2,}#')
    p2 = re.compile(r'^([ ]*)\.\.\.( ?)(?=.*#)')
    t = text.expandtabs()
    out = []
    hit = False
    p0 = re.compile(r'^(\s*)(?=>>>|\.\.\.)')
    for line in t.splitlines(True):
        # whitespace other than blanks in front of the prompt shifts the prompt column (the comment ends up indented)
        new = p0.sub(lambda m: ' ' * len(m.group(1)), line)
        new = p1.sub(lambda m: m.group(1) + '>>> #', new)
        new = p2.sub(lambda m: m.group(1) + '>>>' + m.group(2), new)
        new = p1.sub(lambda m: m.group(1) + '>>> #', new)
        hit = hit or new != line
        out.append(new)
    if not hit:
        return False
    exs, warned, esc = real_docexamples(text, style or 'freeform')
    if not esc.startswith('late:'):
        return False
    return _fails(''.join(out), style) is None


def classify(ctx, hit):
    i = hit.get('input') or {}
    if 'sequence' in i:
        return None
    text, style = i.get('docstring'), i.get('style')
    if not isinstance(text, str):
        return None
    if i.get('by_construction') == 'broken example block':
        return 'K-C14-a' if _is_kc14a(text, style) else None
    if 'late:' in str(hit.get('impl', '')) + str(hit.get('observed', '')) and _is_kc14b(text, style):
        return 'K-C14-b'
    return None


def replay_finding(ctx, finding):
    if finding['id'] == 'K-C14-b':
        exs, warned, esc = real_docexamples(WITNESS['K-C14-b'], 'freeform')
        return exs == [1] and not warned and esc.startswith('late:AssertionError')
    if finding['id'] != 'K-C14-a':
        return False
    text = WITNESS['K-C14-a']
    a = real_docexamples(text, 'google')
    b = real_docexamples(text, 'auto')
    c = real_docexamples(text, 'freeform')
    return a[0] == [1] and a[1] and b[0] == [1] and b[1] and c[0] == [] and c[1]


def _fails_injected(text, style):
    from xdoctest import core, exceptions
    orig = core.docscrape_google.split_google_docblocks

    def raising(docstr):
        raise exceptions.MalformedDocstr('injected')
    core.docscrape_google.split_google_docblocks = raising
    try:
        exs, warned, esc = real_docexamples(text, style)
    finally:
        core.docscrape_google.split_google_docblocks = orig
    if esc != 'none' and not esc.startswith('late:'):
        return {'observed': esc, 'expected_by_spec': 'MalformedDocstr is downgraded to a warning',
                'api': 'parse_docstr_examples with a splitter that raises MalformedDocstr'}
    if style == 'google' and esc == 'none' and (exs or not warned):
        return {'observed': canon_real(exs, warned, esc), 'expected_by_spec': 'no example and a warning'}
    return None


def _seq_problems(docs, ops):
    # the re-join oracle belongs to C13 (and has its own known classes); C14 looks at escapes, hangs and history dependence
    return [p for p in statefulparse.fails_sequence(docs, ops) if 're-join oracle' not in p['what']]


def replay(ctx, failing):
    i = failing['input']
    if 'sequence' in i:
        probs = _seq_problems(i['docstrings'], i['sequence'])
        print('input: docstrings=%r\n       sequence=%r\n -> %s' % (i['docstrings'], i['sequence'], probs[0] if probs else 'same contained outcome every time'))
        return bool(probs)
    if i.get('inject'):
        f = _fails_injected(i['docstring'], i['style'])
        print('input: docstring=%r style=%s, splitter raising MalformedDocstr -> %s' % (i['docstring'], i['style'], f or 'contained'))
        return f is not None
    if 'ident' in i:
        f = _ident_fails(i['module'], i['ident'], i['analysis'], i['filter'], i['style'])
        print('input: generated module identified by %s, analysis=%s, warnings filter=%s, style=%s\n%s\n -> %s' % (
            i['ident'], i['analysis'], i['filter'], i['style'], i['module'], f or 'contained: siblings collected'))
        return f is not None
    if 'module' in i:
        f = _module_fails(i['module'], i['style'])
        print('input: generated module, style=%s -> %s' % (i['style'], f or 'siblings collected and runnable'))
        return f is not None
    if i.get('by_construction'):
        exs, warned, esc = real_docexamples(i['docstring'], i['style'])
        # what is recorded as the known finding K-C14-a (the blocks before the bad one are kept, WITH the warning) is not a
        # failure of this replay: it must tell the tree that produced the violation from the unchanged one
        bad = esc != 'none' or ((bool(exs) or not warned) and not _is_kc14a(i['docstring'], i['style']))
        print('input: docstring=%r style=%s -> %s' % (i['docstring'], i['style'], canon_real(exs, warned, esc)))
        return bad
    f = _fails(i['docstring'], i.get('style'))
    print('input: docstring=%r style=%s -> %s' % (i['docstring'], i.get('style'), f or 'contained'))
    return f is not None

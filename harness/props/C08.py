"""C08 — Reported line numbers point at the real lines of the source file."""
import os
import random

from . import _collect_common as cc
from . import C07 as c07
from .. import driver, par
from ..codec import enc, dec, enc_list
from ..corr import collect as C
from ..gen import modules as gm

LEAN_TARGETS = ['XdocModel.Proofs.C08', 'XdocModel.Pins.Collect']
MANIFEST = {
    'text': ("Full for the arithmetic (after repairs 47e8bea, d902c0b), partial for `lineno` of google blocks (K-C08-a) and for docstrings "
             "with newline escapes (K-C08-b, excluded by the hypothesis LiteralLayout). Proved for ALL files, docstrings, layouts and parser "
             "outputs of the model. Where the docstring starts: since d902c0b the code returns (docnode.lineno, docnode.end_lineno) whenever "
             "the node has end_lineno (every CPython >= 3.8); the translator reads which variant the sources contain "
             "(`Generated.docstartUsesNodeLineno`) and the model follows, so the start line is CPython's `lineno`, an ORACLE INPUT of the model "
             "(field Doc.startLine, supplied by the harness from CPython's ast, cross-checked with the line on which the generator wrote the "
             "literal). `docstart_correct` / `docstart_oneline` are proved for BOTH values of the flag: in node mode they say "
             "doclineno = startLine; in workaround mode (flag false: interpreters without end_lineno, or a tree without d902c0b) they are the "
             "theorems about `_find_docstr_startpos_workaround` (a literal on file lines a..b whose value has b-a newlines, opened with an "
             "optionally r/R/u/U-prefixed triple quote and closed by the same quote followed only by blanks or a comment, is located at line "
             "a+1). In node mode that function is unreachable from collection: it is neither a proof obligation (its pins live in "
             "Pins/DocstrWorkaround.lean, built by this check only in workaround mode) nor part of the verdict (direct calls are counted as "
             "`info:` tags only). `google_offset_is_tag_index` (the i-th example comes from the "
             "i-th example block, its tag line is at the block offset, lineno = doclineno + offset + 1), "
             "`freeform_offset_is_first_part_offset` (curr_offset is the parser offset of the first kept part; re-based offsets add up), "
             "`part_line_is_file_line_google` / `_freeform` (file[lineno + part.line_offset - 1] holds, up to the indentation dedent removed, "
             "the source line the parser placed at that offset, given the CPython fact that docstring line i is written on file line a+i), "
             "`failed_lineno_exception` / `_compile` (= that line + traceback line - 1, the traceback line being the one of the OUTERMOST "
             "doctest frame), `failed_lineno_gotwant` (= the first want line). `lineno_is_first_prompt_google_false` is the kernel-checked "
             "witness of K-C08-a, `lineno_is_first_prompt_partial` what holds instead. Tie to the code: every intermediate number (doclineno, "
             "doclineno_end, DocTest.lineno, re-based part offsets, failed_lineno) model vs code, and the final numbers vs the TEXT of the "
             "generated file and vs the line numbers the generator knows by construction, after really running a doctest with one injected "
             "failure."),
    'note': ("Trusted: Lean kernel; CPython's lineno / end_lineno of the docstring node, the layout of a string literal in the file, traceback "
             "line numbers (the failing "
             "line inside a statement is cross-checked with the generator's knowledge); the doctest parser's tiling (C13) enters the "
             "freeform theorems as the hypothesis `Tiled`."),
    'technique': 'Lean 4 proof (index arithmetic, loop invariant of the freeform grouping, dedent keeps lines in place) + run-and-compare correspondence',
}
RULE = ('generated modules as C07 (blank lines, decorators, multi-line signatures, class/method nesting, docstring opened on its own line or '
        'sharing it, r/R/u/U prefixes, triple-single/double quotes, closing quotes with trailing comment or sharing the last text line, '
        'google blocks at any depth with blank lines inside, freeform groups separated by prose, preceding multi-line statements and wants) '
        'with exactly ONE injected failure: exception on the 2nd/3rd line of a multi-line statement, exception in called library code, '
        'exception in a helper defined in the same doctest, plain raise, raise inside try/finally, try/except...raise and try/finally in a loop '
        '(frame line differs from traceback line), got/want mismatch after a one-line or multi-line statement; closing quotes followed by '
        'trailing blanks / tabs; the '
        'doctest is really run (auto and freeform style). non-trivial: every module (each has a failure); distinct = distinct source')
ASSUMPTIONS = ['docstring literals contain no line continuations or newline escapes (LiteralLayout); see K-C08-b for what happens otherwise',
               'traceback line numbers of CPython 3.12 point at the line of the failing sub-expression']

WITNESS_B = 'x = 1\ny = 2\nz = 3\ndef f():\n    """a\\nb\n    >>> 1\n    """\n'
# literals whose VALUE has more (newline escapes) or fewer (backslash continuation) newlines than the literal has
# source lines; (source, {callname: line on which the literal really starts})
ESCAPE_SOURCES = [
    (WITNESS_B, {'f': 5}),
    ('def f():\n    pass\n\ndef g():\n    \'abc \\\n    def\'\n    return 1\n', {'g': 5}),
    ('def f(): """a\\n\\n\\n\\n\\n\\nb"""\n', {'f': 1}),
    ('import os\n\n\ndef h():\n    """first\\nsecond\n\n    Example:\n        >>> print(1)\n        1\n    """\n', {'h': 5}),
]

_known_budget = [3]


def file_line(lines, n):
    return lines[n - 1] if 1 <= n <= len(lines) else None


def check_module(m, res, d, label):
    src = m.source
    flines = src.split('\n')
    path, modname = cc.write_module(d, src)
    c07._cnt(res, 'modules')
    res['nontriv'].add(hash(src))
    for f in sorted(m.features):
        c07._tag(res, f)
    try:
        # 1. where every docstring starts and ends: model vs code vs generator
        model = cc.model_calldefs([src])[0]
        impl, cds = C.real_calldefs(src)
        c07._cnt(res, 'docstart')
        if model != impl:
            res['disagree'].append(('docstart', {'kind': 'module-doclines', 'source': src}, model[:400], impl[:400]))
        exp_lines = {k: [di.start, di.end] for k, di in m.docs.items()}
        obs_lines = cc.observe_doclines(src)
        if obs_lines != exp_lines:
            bad = {k: (exp_lines.get(k), obs_lines.get(k) if isinstance(obs_lines, dict) else obs_lines) for k in exp_lines
                   if not isinstance(obs_lines, dict) or obs_lines.get(k) != exp_lines[k]}
            res['expect'].append(('docstart', {'kind': 'module-doclines', 'source': src, 'label': label}, exp_lines, obs_lines,
                                  'doclineno / doclineno_end differ from where the literal really is: %r' % (sorted(bad.items())[:3],)))
        # 2. DocTest.lineno and part offsets, three styles: model vs code vs generator vs file text
        for style in cc.STYLES:
            obs, exs = cc.observe_static(path, style)
            c07._cnt(res, 'lineno:' + style)
            mod, _ = cc.model_doctestables([src], style)
            mo = [[x[0], x[1], x[2]] for x in (mod[0] or [])]
            io_ = [[o[0], o[1], o[2]] for o in obs]
            if mo != io_:
                res['disagree'].append(('lineno', {'kind': 'module-lineno', 'source': src, 'style': style}, repr(mo)[:400], repr(io_)[:400]))
            for (what, e, o, tag) in cc.check_examples(m, style, obs):
                inp = {'kind': 'module-lineno', 'source': src, 'style': style, 'what': what, 'label': label}
                if tag == 'K-C08-a':
                    c07._tag(res, 'known:K-C08-a')
                    if _known_budget[0] > 0:
                        _known_budget[0] -= 1
                        res['expect'].append(('lineno', inp, e, o, 'google block body starts with prose: lineno is the body line'))
                else:
                    res['expect'].append(('lineno', inp, e, o, 'reported line differs from the line the generator wrote the prompt on'))
            # every part against the text of the file
            ignored = set(m.ignored_lines)
            kc = cc.exotic_freeform_ids(m, style)
            for e in exs:
                if '%s:%d' % (e.callname, e.num) in kc:
                    c07._tag(res, 'known:K-C08-c(not compared)')
                    continue
                for p in e._parts:
                    if isinstance(p, str):
                        continue
                    c07._cnt(res, 'part-line')
                    n = e.lineno + p.line_offset
                    if n in ignored and e.block_type is None:
                        res['expect'].append(('part-line', {'kind': 'module-lineno', 'source': src, 'style': style,
                                                            'what': 'part of %s:%d at offset %d' % (e.callname, e.num, p.line_offset), 'label': label},
                                              'no part from a disabled section', {'line': n, 'text': file_line(flines, n)},
                                              'a prompt under a DisableDoctest:/Script:/Ignore:... header is part of the freeform doctest'))
                    fl = file_line(flines, n)
                    first = p.orig_lines[0] if p.orig_lines else None
                    ok = fl is not None and first is not None and fl.strip() == first.strip() and fl.strip().startswith('>>>')
                    if not ok:
                        res['expect'].append(('part-line', {'kind': 'module-lineno', 'source': src, 'style': style,
                                                            'what': 'part of %s:%d at offset %d' % (e.callname, e.num, p.line_offset), 'label': label},
                                              first, {'line': n, 'text': fl}, 'file[lineno + line_offset - 1] is not the first source line of the part'))
        # 3. the injected failure: run, then compare failed_lineno with the generator's line and the model's arithmetic
        if m.fail is not None:
            for style in ('auto', 'freeform'):
                run_failure(m, res, path, flines, style, label)
    finally:
        cc.forget_module(modname)


def find_failing_example(m, exs, style):
    f = m.fail
    d = m.docs.get(f['callname'])
    for e in exs:
        if e.callname != f['callname']:
            continue
        if style == 'auto' and d is not None and d.blocks:
            if e.num == f['block']:
                return e
        else:
            return e
    return None


def run_failure(m, res, path, flines, style, label):
    f = m.fail
    src = m.source
    dfail = m.docs.get(f['callname'])
    if dfail is not None and dfail.exotic and (style == 'freeform' or not dfail.blocks):
        return      # K-C08-c: freeform reading of a docstring with exotic line-break characters
    _, exs = cc.observe_static(path, style)
    e = find_failing_example(m, exs, style)
    inp = {'kind': 'module-failure', 'source': src, 'style': style, 'callname': f['callname'], 'fail_kind': f['kind'], 'label': label}
    c07._cnt(res, 'failure:' + f['kind'])
    if e is None:
        res['expect'].append(('failure', inp, 'a doctest holding the failing statement', None, 'the doctest with the injected failure was not collected'))
        return
    # a doctest that passes reports no failing line
    other = [x for x in exs if x is not e and x.callname != f['callname']][:1]
    for x in other:
        x.mode = 'native'
        try:
            with cc.quiet():
                s2 = x.run(on_error='return', verbose=0)
        except BaseException as ex:  # noqa
            continue
        try:
            got2 = (x.failed_line_offset(), x.failed_lineno())
        except Exception as ex:
            got2 = 'raise:' + type(ex).__name__
        c07._cnt(res, 'passing')
        if s2.get('passed') and got2 != (None, None):
            res['expect'].append(('failure', dict(inp, callname=x.callname, fail_kind='none'), [None, None], got2,
                                  'a passing doctest reports a failing line'))
    e.mode = 'native'
    try:
        with cc.quiet():
            summary = e.run(on_error='return', verbose=0)
    except BaseException as ex:  # noqa
        res['expect'].append(('failure', inp, 'run returns', repr(ex), 'run(on_error="return") raised'))
        return
    got = None
    try:
        got = e.failed_lineno()
    except Exception as ex:
        got = 'raise:' + type(ex).__name__
    exp = f['line']
    if not summary.get('failed') or got != exp:
        res['expect'].append(('failure', inp, {'failed': True, 'failed_lineno': exp, 'text': file_line(flines, exp)},
                              {'failed': summary.get('failed'), 'failed_lineno': got,
                               'text': file_line(flines, got) if isinstance(got, int) else None},
                              'failed_lineno() is not the file line of the failing statement / first want line'))
    # the report names the same line
    try:
        with cc.quiet():
            report = '\n'.join(e.repr_failure())
        if summary.get('failed') and ('line %d' % exp) not in report:
            res['expect'].append(('failure', inp, 'report mentions line %d' % exp, report[-300:], 'repr_failure does not name the failing line'))
    except Exception as ex:
        res['expect'].append(('failure', inp, 'report renders', repr(ex), 'repr_failure raised'))
    # the model's arithmetic on the numbers of this run
    fp = e.failed_part
    if summary.get('failed') and fp is not None and not isinstance(fp, str):
        ev = e.exc_info[1] if e.exc_info else None
        from xdoctest import checker
        kind = 'gotwant' if isinstance(ev, checker.GotWantException) else ('repr' if isinstance(ev, checker.ExtractGotReprException) else 'exception')
        tb = e.failed_tb_lineno or 1
        a = driver.run_lines(['failed_lineno\t%d\t%d\t%d\t%d\t%s\t%d' % (e.lineno, fp.line_offset, fp.n_exec_lines, fp.n_want_lines, kind, tb)],
                             jobs=1)[0]
        c07._cnt(res, 'failed_lineno:model')
        if str(got) != a:
            res['disagree'].append(('failed_lineno', inp, a, got))


def _w_modules(args):
    seed, shard, count = args
    res = c07._new_result()
    rng = random.Random('c08m:%d:%d' % (seed, shard))
    _known_budget[0] = 1 if shard < 3 else 0
    with cc.scratch_dir() as d:
        for i in range(count):
            m = gm.gen_module(rng, gm.Opts(inject_failure=True, max_top=4))
            check_module(m, res, d, 'c08m:%d:%d:%d' % (seed, shard, i))
    res['nontriv'] = len(res['nontriv'])
    return res


LINES_END = ['"""', '    """', '"""  # c', "'''", "    '''   # x # y", 'text"""', 'text """ # """ x', "''' # \"\"\" # ''' # \"\"\"", '""" #', '"""#',
             '"""x', "'''\t#c", 'a = """b""" # c', '"', 'x', '', '    ', '""" 　# c', "r'''", '""" # \'\'\'']
LINES_START = ['"""', '    """Summary', 'r"""', 'R"""x', "u'''", "U'''y", 'b"""', 'rb"""', 'x = """', '  f"""', '"x"', "'''", 'ur"""', '\t"""', 'Ru"""', '']


def correspondence(ctx, corr):
    # which branch of _docnode_line_workaround the tree under test takes (read from its sources by the translator):
    # 'node' = (docnode.lineno, docnode.end_lineno); 'workaround' = _find_docstr_startpos_workaround
    mode = driver.run_lines(['docstart_mode'])[0]
    corr.tag('docstart_mode=' + mode)
    workaround = (mode != 'node')
    if workaround:
        # the pins of the workaround function are proof obligations only while that function is reachable
        from .. import leanbuild
        b = leanbuild.build(['XdocModel.Pins.DocstrWorkaround'])
        corr.count('pins:DocstrWorkaround')
        corr.tag('workaround_pins=' + ('ok' if b['ok'] else 'FAILED'))
        if not b['ok']:
            corr.disagree('pin:DocstrWorkaround', {'kind': 'pin', 'what': [e['msg'][:160] for e in b['errors'][:3]] or b['log'][-300:]},
                          'the pattern texts the matcher of Static.findDocStart was derived from', 'edited in the sources')
    c07.merge(corr, par.pmap(_w_modules, [(ctx.seed, s, 10 if ctx.quick else 80) for s in range(16)]))
    # the two line tests of the docstring locator, exhaustively over a pool of line shapes
    import re
    lines = []
    for trip in ("'''", '"""'):
        for l in LINES_END:
            lines.append('end_ok\t%s\t%s' % (enc(trip), enc(l)))
        for l in LINES_START:
            lines.append('start_ok\t%s\t%s' % (enc(trip), enc(l)))
    ans = driver.run_lines(lines)
    i = 0
    for trip in ("'''", '"""'):
        for l in LINES_END:
            real = re.sub(re.escape(trip) + r'\s*#.*$', trip, l).strip().endswith(trip)
            corr.count('end_ok')
            if (ans[i] == '1') != real:
                corr.disagree('end_ok', {'kind': 'line', 'trip': trip, 'line': l}, ans[i], real)
            i += 1
        for l in LINES_START:
            real = l.strip().lower().startswith((trip, 'r' + trip, 'u' + trip))
            corr.count('start_ok')
            if (ans[i] == '1') != real:
                corr.disagree('start_ok', {'kind': 'line', 'trip': trip, 'line': l}, ans[i], real)
            i += 1
    # _find_docstr_startpos_workaround itself, called directly. In node mode the function is NOT reachable from
    # collection (the property cannot depend on it), so differences are only counted (tags `info:...`), never part of
    # the verdict; in workaround mode they are.
    from xdoctest import static_analysis
    cases = []
    for q in ("'''", '"""'):
        for first, ok_start in [(q, True), ('    ' + q + 'Summary', True), ('  r' + q, True), ('U' + q + 'x', True), ('x = ' + q, False)]:
            for last, ok_end in [(q, True), ('    ' + q, True), (q + '   ', True), ('    ' + q + '\t', True), (q + '  # c', True),
                                 (q + ' # c   ', True), ('text' + q + ' ', True), (q + ' x', False), ('text', False),
                                 (q + ' # ' + ("'''" if q == '"""' else '"""'), True)]:
                for nbody in (0, 2):
                    lines = ['import os', 'def f():', first] + ['    body %d' % i for i in range(nbody)] + [last, '    pass']
                    docstr = '\n'.join(['S'] + ['    body %d' % i for i in range(nbody)] + ['E'])
                    cases.append((docstr, lines, 2 + nbody + 1, ok_start and ok_end))
    ans = driver.run_lines(['find_doc_start\t%s\t%s\t%d' % (enc(d), enc_list(ls), e) for d, ls, e, _ in cases])
    for (d, ls, e, ok), a in zip(cases, ans):
        try:
            r = '%d,%d' % static_analysis.TopLevelVisitor._find_docstr_startpos_workaround(None, d, ls, e)
        except IndexError:
            r = 'error:IndexError'
        corr.count('startpos_workaround')
        inp = {'kind': 'startpos', 'docstr': d, 'lines': ls, 'endpos': e}
        if r != a:
            if workaround:
                corr.disagree('startpos_workaround', inp, a, r)
            else:
                corr.tag('info:startpos_workaround:model!=code(unreachable)')
        if ok and r != '2,%d' % (e + 1):
            if workaround:
                corr.expect_fail('startpos_workaround', inp, '2,%d' % (e + 1), r,
                                 'a literal opened on line index 2 and closed on line index %d is not located there' % e)
            else:
                corr.tag('info:startpos_workaround:wrong-start(unreachable)')
    # literals with newline escapes / continuations: model vs code always; vs the true start line only when the code
    # takes the start from the node (K-C08-b otherwise)
    model = cc.model_calldefs([s for s, _ in ESCAPE_SOURCES])
    for (src, exp), a in zip(ESCAPE_SOURCES, model):
        r, cds = C.real_calldefs(src)
        corr.count('docstart:escapes')
        if r != a:
            corr.disagree('docstart', {'kind': 'module-doclines', 'source': src}, a[:300], r[:300])
        if mode == 'node':
            obs = cc.observe_doclines(src)
            got = {k: (obs.get(k) or [None])[0] for k in exp} if isinstance(obs, dict) else obs
            if got != exp:
                corr.expect_fail('docstart', {'kind': 'module-doclines', 'source': src, 'label': 'escapes'},
                                 {k: [v, None] for k, v in exp.items()}, obs, 'the literal starts on another line')
    # docstart on synthetic files through parse_static_calldefs (property level: whatever branch the code takes): every
    # start x end shape, including closing quotes followed by blanks / a tab / a comment with trailing blanks
    srcs = []
    for q in ("'''", '"""'):
        for pre in ('', 'r', 'R', 'u', 'U'):
            for opening in ('own', 'shared'):
                for closing in ('own', 'comment', 'shared', 'blanks', 'tab', 'comment-blanks'):
                    for nbody in (0, 1, 3):
                        body = ['    line %d' % k for k in range(nbody)]
                        first = '    ' + pre + q + ('Summary' if opening == 'shared' else '')
                        last = {'own': '    ' + q, 'comment': '    ' + q + '  # done', 'shared': '    end' + q,
                                'blanks': '    ' + q + '   ', 'tab': '    ' + q + '\t',
                                'comment-blanks': '    ' + q + ' # done  \t'}[closing]
                        srcs.append('\n'.join(['x = (1,', '     2)', 'def f():', first] + body + [last, '    return 1', '']))
    model = cc.model_calldefs(srcs)
    for s, a in zip(srcs, model):
        r, cds = C.real_calldefs(s)
        corr.count('docstart:synthetic')
        if r != a:
            corr.disagree('docstart', {'kind': 'module-doclines', 'source': s}, a[:300], r[:300])
        if cds is not None and cds['f'].doclineno != 4:
            corr.expect_fail('docstart', {'kind': 'module-doclines', 'source': s}, {'f': [4, None]}, {'f': [cds['f'].doclineno, cds['f'].doclineno_end]},
                             'the docstring of f starts on line 4')


def search(ctx, corr, broken):
    if not broken:
        return []
    c2 = type(corr)()
    c07.merge(c2, par.pmap(_w_modules, [(ctx.seed + 1000, s, 5) for s in range(16)]))
    hits = []
    for e in c2.expect_failures:
        hits.append({'kind': 'expectation', 'suite': e['suite'], 'input': e['input'], 'expected': e['expected'], 'impl': e['impl'], 'why': e['why']})
    return [h for h in hits if classify(ctx, h) is None][:5]


def _observe_lineno(inp):
    with cc.scratch_dir() as d:
        path, modname = cc.write_module(d, inp['source'])
        try:
            obs, _ = cc.observe_static(path, inp['style'])
        finally:
            cc.forget_module(modname)
    return obs


def classify(ctx, hit):
    """K-C08-a, narrowly: the complaint is about `lineno of <callname:num>` of a google example, the reported line is
    the line right after an Example/Doctest tag line, that line is not a prompt, and lineno + first part offset
    IS the expected first prompt"""
    inp = hit.get('input', {})
    if inp.get('kind') != 'module-lineno' or not str(inp.get('what', '')).startswith('lineno of '):
        return None
    key = inp['what'][len('lineno of '):]
    flines = inp['source'].split('\n')
    for o in _observe_lineno(inp):
        if '%s:%d' % (o[0], o[1]) == key:
            reported, first_part = o[2], o[3]
            tag = (file_line(flines, reported - 1) or '').strip()
            body = (file_line(flines, reported) or '').strip()
            is_tag = tag.rstrip(': ').rstrip() in ('Example', 'Examples', 'Doctest') and tag.endswith((':', ': '))
            if is_tag and not body.startswith('>>>') and first_part == hit.get('expected') and reported < first_part:
                return 'K-C08-a'
    return None


def replay_finding(ctx, finding):
    if finding['id'] == 'K-C08-a':
        src = 'def f():\n    """\n    Example:\n        some text first\n        >>> print(1)\n        1\n    """\n'
        obs = _observe_lineno({'source': src, 'style': 'google'})
        return bool(obs) and obs[0][2] == 4 and obs[0][3] == 5
    if finding['id'] == 'K-C08-b':
        # residual after repair d902c0b (the literal's START line is now exact): the lines of the docstring
        # VALUE are counted, so every line after a newline escape is reported one too large per escape
        src = 'import os\n\n\ndef h():\n    """first\\nsecond\n\n    Example:\n        >>> print(1)\n        1\n    """\n'
        obs = _observe_lineno({'source': src, 'style': 'freeform'})
        if bool(obs) and obs[0][2] == 9:          # the prompt is on file line 8
            return True
        # a tree without d902c0b (workaround mode): the finding in its original form, the literal located at its END line
        return cc.observe_doclines(WITNESS_B) == {'f': [7, 7]}
    return False


def replay(ctx, failing):
    inp = failing['input']
    kind = inp.get('kind')
    if kind == 'module-doclines':
        obs = cc.observe_doclines(inp['source'])
        print(inp['source'])
        print('expected (start, end) lines: %r\nobserved now: %r' % (failing.get('expected'), obs))
        exp = failing.get('expected') or {}
        return any((obs.get(k) if isinstance(obs, dict) else None) != v for k, v in exp.items() if v[1] is not None) or \
            any((obs.get(k) or [None])[0] != v[0] for k, v in exp.items())
    if kind == 'startpos':
        from xdoctest import static_analysis
        try:
            r = '%d,%d' % static_analysis.TopLevelVisitor._find_docstr_startpos_workaround(None, inp['docstr'], inp['lines'], inp['endpos'])
        except IndexError:
            r = 'error:IndexError'
        print('lines=%r endpos=%d docstr=%r' % (inp['lines'], inp['endpos'], inp['docstr']))
        print('expected (start, stop) = %s, observed now %s' % (failing.get('expected'), r))
        return r != failing.get('expected')
    if kind == 'module-lineno':
        obs = _observe_lineno(inp)
        print(inp['source'])
        print('style=%s %s: expected %r, recorded %r' % (inp['style'], inp.get('what'), failing.get('expected'), failing.get('impl')))
        print('observed now [callname, num, lineno, first part line]: %r' % ([o[:4] for o in obs],))
        what = str(inp.get('what', ''))
        if what.startswith('lineno of '):
            key = what[len('lineno of '):]
            return any('%s:%d' % (o[0], o[1]) == key and o[2] != failing.get('expected') for o in obs)
        if what.startswith('first part line of '):
            key = what[len('first part line of '):]
            return any('%s:%d' % (o[0], o[1]) == key and o[3] != failing.get('expected') for o in obs)
        return True
    if kind == 'module-failure':
        print(inp['source'])
        exp = (failing.get('expected') or {}).get('failed_lineno') if isinstance(failing.get('expected'), dict) else None
        with cc.scratch_dir() as d:
            path, modname = cc.write_module(d, inp['source'])
            try:
                _, exs = cc.observe_static(path, inp['style'])
                bad = True
                for e in exs:
                    if e.callname != inp['callname']:
                        continue
                    e.mode = 'native'
                    with cc.quiet():
                        s = e.run(on_error='return', verbose=0)
                    if s.get('failed'):
                        got = e.failed_lineno()
                        print('%s:%d failed, failed_lineno() = %r, expected %r' % (e.callname, e.num, got, exp))
                        bad = (got != exp)
                        break
            finally:
                cc.forget_module(modname)
        return bad
    print('recorded case: %r' % (inp,))
    return True

"""C17 — Module name <-> path resolution agrees with Python's import system."""
import hashlib
import importlib
import itertools
import os
import random
import shutil
import subprocess
import sys
import tempfile

from .. import driver, par
from ..codec import enc, dec
from ..gen import importtrees as gt
from ..oracle import importsys as orc
from ..shrink import shrink_list

LEAN_TARGETS = ['XdocModel.Proofs.C17', 'XdocModel.Pins.Import']
MANIFEST = {
    'text': ("Partial. Proved for ALL file systems (two arbitrary predicates isFile/isDir on component lists), all search path "
             "entries and all dotted names of any depth: `resolve_eq_python` / `resolve_origin_eq_python` / `importable_iff_python` "
             "(the model of _syspath_modname_to_modpath + normalize_modpath finds exactly the package directory / .py file that "
             "importlib's FileFinder finds component by component, and nothing when it finds nothing; guard: no DIRECTORY is named "
             "__init__.py, excluded point witnessed), `roundtrip` (modpath_to_modname(modname_to_modpath(n)) = n; guards: the entry "
             "is not itself a package, last component is not __init__; both excluded points witnessed and run on the real code), "
             "`split_modpath_spec` + `split_modpath_unique` (d ++ rel = p, no __init__.py in d, one in every directory of rel, and "
             "this determines the answer), `isvalid_spec`, `isvalid_terminates`, `first_entry_wins`, `resolve_path_eq_python` "
             "(several entries; guard no shadowing, excluded point witnessed). Observed only (correspondence, not proved): "
             "import_module_from_path returns the module of that name and leaves sys.path unchanged; os.path string handling of the "
             "search path entry spellings. Namespace packages (PEP 420) are outside the regular-package specification: K-C17-a."),
    'note': ("Trusted: Lean kernel, allowed axioms only; hand-written model Import.lean of util_import.py (candidate list and loop "
             "conditions pinned from the source text); os.path (join/dirname/abspath/normpath/relpath/splitext on a JOINED string is "
             "modelled, the rest is the harness' translation of a path string to absolute components), importlib (oracle), the "
             "import machinery itself, symlinks (lexical view, as os.path.abspath) are CPython/OS and are parameters or oracles. Not "
             "modelled: extension-module suffixes (.so/.abi3.so), egg-links, __editable__ finders/.pth, zip archives, `exclude`, "
             "expanduser, namespace packages."),
    'technique': 'Lean 4 proof (induction over components, for all file systems) + differential correspondence on random trees on disk',
}
RULE = ('random package trees written to a scratch directory (nested packages, modules, directories without __init__.py in the '
        'middle of a chain, package and module of the same name, __main__.py, underscores, plain/.txt files, deep chains with one '
        'hole, entry that is itself a package) x all dotted names present in the tree + absent variants x spellings of the search '
        'path entry (absolute, trailing separator, relative, ./x, x/, symlink, ".", "", x/../x) x hide_init/hide_main: '
        'modname_to_modpath, modpath_to_modname, split_modpath, normalize_modpath vs the model on the directory listing; the '
        'FileFinder oracle, the round trip and the split specification are compared eagerly; plus import_module_from_path '
        '(__name__, __file__, marker, sys.path before/after, importable and failing modules), the string pipeline of '
        'modpath_to_modname on all short strings, several-entry search paths, the excluded points; ALL FOUR hide_init/hide_main '
        'combinations on every query (names __main__, pkg.__main__, pkg.__init__ for every directory, package or not; __main__.py in '
        'packages, script directories and the entry itself), calls without optional arguments vs the documented defaults, the default '
        'sys.path and `exclude`, development-mode link files (egg-link, __editable__ pth/finder), zip archives and missing paths for '
        'import_module_from_path, the position of the temporary sys.path entry during the import; a watchdog turns a call that does '
        'not return into a failing input. non-trivial = a dotted name with '
        '>= 2 components or a name that resolves; distinct = distinct (tree, spelling, api, arguments)')
ASSUMPTIONS = [
    'os.path and importlib behave as on this interpreter (POSIX paths; case-sensitive file system)',
    'module name components are non-empty and contain no dot or separator (others are outside the model)',
    'the scratch directory has no __init__.py in any ancestor (checked: the listing sent to the model includes the ancestors)',
]

FLAGS = ((1, 0), (0, 0), (1, 1), (0, 1))      # (hide_init, hide_main)
SPELLINGS = ['abs', 'abs/', 'rel', './rel', 'rel/', 'link', 'dot', 'empty', 'dotdot']
KNOWN_A = 'K-C17-a'


class Hang(BaseException):
    """the real code did not return in time (BaseException: not swallowed by the `except Exception` wrappers)"""


class deadline(object):
    def __init__(self, seconds):
        self.seconds = seconds

    def _fire(self, signum, frame):
        raise Hang()

    def __enter__(self):
        import signal
        self.old = signal.signal(signal.SIGALRM, self._fire)
        signal.setitimer(signal.ITIMER_REAL, self.seconds)

    def __exit__(self, *a):
        import signal
        signal.setitimer(signal.ITIMER_REAL, 0)
        signal.signal(signal.SIGALRM, self.old)
        return False


TREE_DEADLINE = 90      # seconds for ALL calls on one tree (normally ~0.1 s)
CASE_DEADLINE = 30


def ui():
    from xdoctest.utils import util_import
    return util_import


def spell(kind, top):
    """-> (search path entry as written, working directory)"""
    root = os.path.join(top, 'root')
    if kind == 'abs':
        return root, top
    if kind == 'abs/':
        return root + '/', top
    if kind == 'rel':
        return 'root', top
    if kind == './rel':
        return './root', top
    if kind == 'rel/':
        return 'root/', top
    if kind == 'link':
        return os.path.join(top, 'link'), top
    if kind == 'dot':
        return '.', root
    if kind == 'empty':
        return '', root
    if kind == 'dotdot':
        return os.path.join(top, 'root', '..', 'root'), top
    raise ValueError(kind)


# ------------------------------------------------------------------ the real code, canonical answers
def real_resolve(name, entries, hi, hm):
    try:
        r = ui().modname_to_modpath(name, hide_init=bool(hi), hide_main=bool(hm), sys_path=list(entries))
    except Exception as ex:
        return 'raise:' + type(ex).__name__
    return 'none' if r is None else 'some ' + os.path.abspath(r)


def _verr(ex):
    msg = str(ex)
    if 'does not exist' in msg:
        return 'err doesNotExist'
    if 'is not a module' in msg:
        return 'err notAModule'
    return 'raise:ValueError'


def real_split(path, check):
    try:
        d, rel = ui().split_modpath(path, check=bool(check))
    except ValueError as ex:
        return _verr(ex)
    except Exception as ex:
        return 'raise:' + type(ex).__name__
    return 'ok %s %s' % (d, rel)


def real_m2n(path, hi, hm, check):
    try:
        return 'ok ' + ui().modpath_to_modname(path, hide_init=bool(hi), hide_main=bool(hm), check=bool(check))
    except ValueError as ex:
        return _verr(ex)
    except Exception as ex:
        return 'raise:' + type(ex).__name__


def real_norm(path, hi, hm):
    try:
        return os.path.abspath(ui().normalize_modpath(path, hide_init=bool(hi), hide_main=bool(hm)))
    except Exception as ex:
        return 'raise:' + type(ex).__name__


def canon_found(found):
    if found is None:
        return 'none'
    kind, origin = found
    return '%s %s' % (kind, os.path.dirname(origin) if kind == 'pkg' else origin)


def canon_expected(found, hi, hm=0):
    p = orc.expected_path(found, hi, hm)
    return 'none' if p is None else 'some ' + p


def decode_answer(ans):
    """model answer -> the canonical text used for the real code"""
    toks = ans.split(' ')
    out = []
    for t in toks:
        if t == '-' or (t and t[0].isdigit()):
            try:
                out.append(dec(t))
                continue
            except Exception:
                pass
        out.append(t)
    return ' '.join(out)


def encl(paths):
    return ';'.join(enc(p) for p in paths) if paths else '~'


# ------------------------------------------------------------------ one tree: real code + oracles + model queries
class Acc(object):
    """plain, picklable accumulator of one shard"""

    def __init__(self):
        self.counts = {}
        self.tags = {}
        self.disagree = []
        self.expect = []
        self.samples = []
        self.nontriv = 0
        self.unknown = 0

    def count(self, k, n=1):
        self.counts[k] = self.counts.get(k, 0) + n

    def tag(self, k, n=1):
        self.tags[k] = self.tags.get(k, 0) + n


def defaults_violation(entry, name=None, path=None):
    """calls without the optional arguments behave as with the documented defaults
    (hide_init=True, hide_main=False, check=True). -> None | failure dict"""
    u = ui()

    def call(f, *a, **k):
        try:
            r = f(*a, **k)
        except ValueError as ex:
            return _verr(ex)
        except Exception as ex:
            return 'raise:' + type(ex).__name__
        return r
    pairs = []
    if name is not None:
        pairs.append(('modname_to_modpath(%r, sys_path=[%r])' % (name, entry), call(u.modname_to_modpath, name, sys_path=[entry]),
                      call(u.modname_to_modpath, name, hide_init=True, hide_main=False, sys_path=[entry])))
    if path is not None:
        pairs.append(('modpath_to_modname(%r)' % path, call(u.modpath_to_modname, path),
                      call(u.modpath_to_modname, path, hide_init=True, hide_main=False, check=True, relativeto=None)))
        pairs.append(('split_modpath(%r)' % path, call(u.split_modpath, path), call(u.split_modpath, path, check=True)))
        pairs.append(('normalize_modpath(%r)' % path, call(u.normalize_modpath, path),
                      call(u.normalize_modpath, path, hide_init=True, hide_main=False)))
        if not os.path.exists(path):
            r = call(u.modpath_to_modname, path)
            if not (isinstance(r, str) and r.startswith('err ')):
                return {'api': 'modpath_to_modname(%r)' % path, 'observed': repr(r), 'expected': 'ValueError (the path does not exist)',
                        'why': 'modpath_to_modname(check=True) accepts a path that does not exist'}
    for what, got, exp in pairs:
        if got != exp:
            return {'api': what, 'observed': repr(got), 'expected': repr(exp), 'why': 'a call without optional arguments differs from the documented defaults'}
    return None


def _flag_roundtrip_violation(name, found, rpath, hi, hm):
    """the resolved path is a module path, split_modpath accepts it, and modpath_to_modname with the
    same flags gives the name back (minus a hidden __init__ / in-package __main__). -> None | text"""
    if not orc.is_module_path(rpath):
        return 'resolved to %s, which is neither a python file nor a package directory' % rpath
    sp = real_split(rpath, 1)
    if not sp.startswith('ok '):
        return 'split_modpath rejects the resolved path: %s' % sp
    want = orc.expected_name(name, found, hi, hm)
    for arg in (rpath, found[1]):
        back = real_m2n(arg, hi, hm, 1)
        exp = want
        if arg == found[1] and not hi and found[0] == 'pkg':
            exp = name + '.__init__'          # hide_init=False names the __init__ module itself
        if arg == rpath and not hi and os.path.isdir(rpath):
            exp = want + '.__init__'
        if back != 'ok ' + exp:
            return 'modpath_to_modname(%s, hide_init=%s, hide_main=%s) = %s, expected %s' % (arg, bool(hi), bool(hm), back, exp)
    return None


def _ident(rel):
    comps = rel.split('/')
    last = comps[-1]
    if last.endswith('.py'):
        comps = comps[:-1] + [last[:-3]]
    return all(c and '.' not in c for c in comps)


def run_tree(tree, top, rng, acc, quick):
    """writes the tree, runs the real code and the independent oracles; returns the model queries"""
    root = os.path.join(top, 'root')
    gt.write_tree(root, tree)
    os.symlink('root', os.path.join(top, 'link'))
    names = gt.candidate_names(tree, rng, limit=22 if quick else 60)
    spells = ['abs'] + rng.sample(SPELLINGS[1:], 3 if quick else len(SPELLINGS) - 1)
    root_init = os.path.exists(os.path.join(root, '__init__.py'))
    cases = []

    def case(q, real, meta):
        cases.append({'q': q, 'real': real, 'meta': meta})

    for sp in spells:
        entry, cwd = spell(sp, top)
        os.chdir(cwd)
        abs_entry = os.path.abspath(entry or '.')
        for name in names:
            found = orc.ff_resolve(entry, name)
            meta = {'api': 'R', 'spelling': sp, 'name': name}
            case('P:%s:%s' % (enc(abs_entry), enc(name)), canon_found(found), dict(meta, api='P'))
            ntv = ('.' in name) or found is not None
            for hi, hm in FLAGS:
                r = real_resolve(name, [entry], hi, hm)
                case('R:%d%d:%s:%s' % (hi, hm, enc(abs_entry), enc(name)), r, dict(meta, hi=hi, hm=hm))
                acc.count('modname_to_modpath')
                if ntv:
                    acc.nontriv += 1
                exp = canon_expected(found, hi, hm)
                acc.count('oracle:FileFinder')
                bad = None
                if r != exp:
                    bad = 'modname_to_modpath differs from importlib FileFinder resolved part by part (+ documented hide_init/hide_main folding)'
                elif found is not None and not root_init:
                    bad = _flag_roundtrip_violation(name, found, r[5:], hi, hm)
                    acc.count('roundtrip:flags')
                if bad and len(acc.expect) < 50:
                    acc.expect.append({'input': dict(meta, hi=hi, hm=hm, tree=tree), 'expected': exp, 'impl': r, 'why': bad})
                if found is not None and name.split('.')[-1] in ('__main__', '__init__'):
                    acc.tag('special:%s:%s:hi=%d,hm=%d' % (name.split('.')[-1], 'in-package' if os.path.isfile(
                        os.path.join(os.path.dirname(found[1]), '__init__.py')) else 'not-in-package', hi, hm))
            dv = defaults_violation(entry, name=name)
            acc.count('oracle:documented-defaults')
            if dv and len(acc.expect) < 50:
                acc.expect.append({'input': dict(meta, api='R', tree=tree), 'expected': dv['expected'], 'impl': dv['observed'], 'why': dv['why']})
            # tags (from the oracle and the tree)
            relp = name.replace('.', '/')
            if found is not None:
                acc.tag('found:' + found[0])
                if found[0] == 'pkg' and os.path.isfile(os.path.join(root, relp + '.py')):
                    acc.tag('package-beats-module-of-same-name')
            elif os.path.exists(os.path.join(root, relp)) or os.path.exists(os.path.join(root, relp + '.py')):
                acc.tag('none:on-disk-but-chain-broken-or-bare')
                full = orc.interpreter_resolve([entry], name)
                if full is not None:
                    acc.tag('namespace-only:interpreter-finds-%s (K-C17-a class)' % full[0])
            else:
                acc.tag('none:absent')
            # round trip (property sentence), guards as in theorem `roundtrip`
            r10 = real_resolve(name, [entry], 1, 0)
            if r10.startswith('some ') and not root_init and name.split('.')[-1] != '__init__':
                back = real_m2n(r10[5:], 1, 0, 1)
                acc.count('roundtrip')
                if back != 'ok ' + name:
                    acc.expect.append({'input': dict(meta, api='RT', tree=tree), 'expected': 'ok ' + name, 'impl': back,
                                       'why': 'modpath_to_modname(modname_to_modpath(name)) != name'})
            elif r10.startswith('some ') and root_init:
                acc.tag('roundtrip-excluded:entry-is-package')
        acc.tag('spelling:' + sp)

    # ---- path APIs
    rels = sorted(tree['files']) + gt.all_dirs(tree)
    extra = [r + 'x' for r in rng.sample(rels, min(3, len(rels)))] + ['', 'nope.py', 'nope/deep.py']
    for d in gt.all_dirs(tree):
        for special in ('__init__.py', '__main__.py'):
            if d + '/' + special not in tree['files'] and rng.random() < 0.5:
                extra.append(d + '/' + special)        # the file a package would have, absent
    if len(rels) > (24 if quick else 80):
        rels = rng.sample(rels, 24 if quick else 80)
    rels = rels + extra
    for sp in ['abs', rng.choice(SPELLINGS[1:])]:
        entry, cwd = spell(sp, top)
        os.chdir(cwd)
        for rel in rels:
            path = os.path.join(entry, rel) if rel else (entry or '.')
            ap = os.path.abspath(path)
            meta = {'spelling': sp, 'rel': rel}
            for check in (1, 0):
                rs = real_split(path, check)
                case('S:%d:%s' % (check, enc(ap)), rs, dict(meta, api='S', check=check))
                acc.count('split_modpath')
                if check:
                    acc.nontriv += 1
                    acc.tag('split:' + rs.split(' ')[0] + (':' + rs.split(' ')[1] if rs.startswith('err') else ''))
                    should_fail = (not os.path.exists(ap)) or (os.path.isdir(ap) and not os.path.exists(os.path.join(ap, '__init__.py')))
                    bad = None
                    if rs.startswith('ok '):
                        d, r2 = rs[3:].rsplit(' ', 1) if ' ' in rs[3:] else (rs[3:], '')
                        bad = 'accepted a path that does not exist / is a directory without __init__.py' if should_fail \
                            else orc.split_spec_violation(ap, d, r2)
                    elif not should_fail:
                        bad = 'rejected an existing module path'
                    acc.count('oracle:split-spec')
                    if bad:
                        acc.expect.append({'input': dict(meta, api='S', tree=tree), 'expected': 'split specification', 'impl': rs, 'why': bad})
            for hi, hm, check in ((1, 0, 1), (0, 0, 1), (1, 1, 1), (0, 1, 1), (1, 0, 0), (0, 1, 0)):
                rm = real_m2n(path, hi, hm, check)
                case('M:%d%d%d:%s' % (hi, hm, check, enc(ap)), rm, dict(meta, api='M', hi=hi, hm=hm, check=check))
                acc.count('modpath_to_modname')
                acc.nontriv += 1
            for hi, hm in ((1, 0), (0, 0), (1, 1), (0, 1)):
                case('N:%d%d:%s' % (hi, hm, enc(ap)), real_norm(path, hi, hm), dict(meta, api='N', hi=hi, hm=hm))
                acc.count('normalize_modpath')
            relto = os.path.join(entry or '.', 'x')
            for hi, hm in ((1, 0), (0, 1)):
                try:
                    rr = ui().modpath_to_modname(path, hide_init=bool(hi), hide_main=bool(hm), relativeto=relto)
                except Exception as ex:
                    rr = 'raise:' + type(ex).__name__
                case('L:%d%d:%s:%s' % (hi, hm, enc(ap), enc(os.path.abspath(relto))), rr, dict(meta, api='Lt', hi=hi, hm=hm))
                acc.count('modpath_to_modname:relativeto')
            # name -> importlib -> same file (by construction: the file is importable under that name)
            dv = defaults_violation(entry, path=path)
            acc.count('oracle:documented-defaults')
            if dv and len(acc.expect) < 50:
                acc.expect.append({'input': dict(meta, api='S', tree=tree), 'expected': dv['expected'], 'impl': dv['observed'], 'why': dv['why']})
            for hi, hm in FLAGS:
                f = _m2n_importlib_violation(path, hi, hm)
                if f is not None:
                    acc.count('oracle:name-resolves-back')
                    if f and len(acc.expect) < 50:
                        acc.expect.append({'input': dict(meta, api='MB', hi=hi, hm=hm, tree=tree), 'expected': f['expected'], 'impl': f['impl'], 'why': f['why']})
    os.chdir(top)
    return cases


def _m2n_importlib_violation(path, hi=1, hm=0):
    """modpath_to_modname(path, hide_init, hide_main) must be a name under which importlib, searching
    split_modpath(path)[0], finds exactly this file (or, for a hidden in-package __main__.py, its
    package). -> None (not applicable) | {} (holds) | failure dict"""
    ap = os.path.abspath(path)
    base = os.path.basename(ap)
    if os.path.isdir(ap):
        if not os.path.isfile(os.path.join(ap, '__init__.py')):
            return None
        target = os.path.join(ap, '__init__.py')
        stem = base
    elif os.path.isfile(ap) and base.endswith('.py'):
        target = ap
        stem = base[:-3]
        if base != '__init__.py' and os.path.isfile(os.path.join(ap[:-3], '__init__.py')):
            return None     # shadowed by a package of the same name: not importable at all
    else:
        return None
    if '.' in stem or not stem:
        return None
    in_pkg = os.path.isfile(os.path.join(os.path.dirname(target), '__init__.py'))
    if os.path.basename(target) == '__init__.py':
        want = ('pkg', target) if hi else ('mod', target)
    elif hm and os.path.basename(target) == '__main__.py' and in_pkg:
        want = ('pkg', os.path.join(os.path.dirname(target), '__init__.py'))
        if not hi:
            return None     # (hide_init=False, hide_main=True) on pkg/__main__.py gives the directory name: same as above
    else:
        want = ('mod', target)
    name = real_m2n(path, hi, hm, 1)
    sp = real_split(path, 1)
    if not (name.startswith('ok ') and sp.startswith('ok ')):
        return {'expected': 'a module name', 'impl': '%s / %s' % (name, sp),
                'why': 'modpath_to_modname(hide_init=%s, hide_main=%s) / split_modpath reject an importable file' % (bool(hi), bool(hm))}
    d, rel = sp[3:].rsplit(' ', 1)
    if any('.' in c for c in rel.split('/')[:-1]):
        return None
    if want[0] == 'pkg' and os.path.dirname(want[1]) == d:
        return None         # the package directory is the search directory itself: entry-is-package class
    got = orc.ff_resolve(d, name[3:])
    if got != want:
        return {'expected': '%s via importlib from %s' % (want, d), 'impl': 'name %r resolves to %r' % (name[3:], got),
                'why': 'the name given by modpath_to_modname(hide_init=%s, hide_main=%s) does not import this file from the '
                       'directory given by split_modpath' % (bool(hi), bool(hm))}
    return {}


def _shard(args):
    seed, shard, ntrees, quick = args
    h = hashlib.sha256(('%d:C17:%d' % (seed, shard)).encode()).digest()
    rng = random.Random(int.from_bytes(h[:8], 'big'))
    acc = Acc()
    old = os.getcwd()
    scratch = tempfile.mkdtemp(prefix='xdocverif-')
    lines, pending, trees = [], [], []

    def flush():
        os.chdir(old)
        answers = driver.run_lines(lines, jobs=1)
        for tree, cases, ans in zip(trees, pending, answers):
            parts = ans.split('\t')
            if len(parts) != len(cases):
                acc.disagree.append(('protocol', {'tree': tree}, ans[:200], '%d cases' % len(cases)))
                continue
            for c, a in zip(cases, parts):
                m = decode_answer(a)
                api = c['meta']['api']
                if api == 'P':
                    acc.count('spec:pyResolve-vs-importlib')
                if m != c['real'] and len(acc.disagree) < 50:
                    acc.disagree.append(('spec-vs-importlib' if api == 'P' else 'model-vs-code:' + api,
                                         dict(c['meta'], tree=tree), m, c['real']))
        del lines[:], pending[:], trees[:]

    try:
        for k in range(ntrees):
            tree = gt.gen_tree(rng, max_depth=4 if quick else 6, width=3, root_init=(rng.random() < 0.12))
            top = os.path.join(scratch, 't%d' % k)
            os.makedirs(top)
            try:
                with deadline(TREE_DEADLINE):
                    cases = run_tree(tree, top, rng, acc, quick)
            except Hang:
                acc.expect.append({'input': {'api': 'HANG', 'tree': tree, 'spelling': 'abs'}, 'expected': 'every call returns',
                                   'impl': 'no answer within %d s' % TREE_DEADLINE, 'why': 'hang: a call on this tree did not return'})
                break
            files, dirs = gt.listing(top)
            lines.append('\t'.join(['imp', encl(files), encl(dirs)] + [c['q'] for c in cases]))
            pending.append(cases)
            trees.append(tree)
            os.chdir(scratch)
            shutil.rmtree(top)
            if k == 0 and shard == 0:
                acc.samples.append({'tree_files': sorted(tree['files'])[:12], 'queries': [c['meta'] for c in cases[:3]]})
            if len(lines) >= 10:
                flush()
        flush()
    finally:
        os.chdir(old)
        shutil.rmtree(scratch, ignore_errors=True)
    return acc


# ------------------------------------------------------------------ import_module_from_path
def _import_case(scratch, uid, rng):
    """one generated package chain with a leaf of a given kind; returns the case description"""
    depth = rng.randint(0, 4)
    hole = rng.choice([None, None, None] + list(range(depth))) if depth else None
    comps = ['xv17%s_%d' % (uid, i) for i in range(depth)]
    kind = rng.choice(['ok', 'ok', 'ok', 'raises', 'syntax', 'missing-import', 'pkg', 'pkg-raises', 'main', 'init-file'])
    leaf = rng.choice(['xv17%s_leaf', 'xv17%s_leaf', 'xv17%s__init__', 'xv17%s__main__', '__init__xv17%s', '__main__xv17%s']) % uid
    files = {}
    prefix = ''
    for i, c in enumerate(comps):
        if i != hole:
            files[prefix + c + '/__init__.py'] = 'X = %r\n' % (prefix + c)
        prefix += c + '/'
    live = comps[hole + 1:] if hole is not None else comps       # packages above the leaf that count
    marker = 'marker-%s' % uid
    body = {'ok': 'import sys\nX = %r\nPATH_AT_IMPORT = list(sys.path)\n' % marker, 'raises': 'X = %r\nraise ValueError("boom")\n' % marker,
            'syntax': 'X = = 1\n', 'missing-import': 'import xv17_does_not_exist_%s\n' % uid}
    if kind in body:
        rel = prefix + leaf + '.py'
        files[rel] = body[kind]
        name = '.'.join(live + [leaf])
        origin = rel
    elif kind in ('pkg', 'pkg-raises'):
        files[prefix + leaf + '/__init__.py'] = body['ok'] if kind == 'pkg' else body['raises']
        rel = prefix + leaf
        name = '.'.join(live + [leaf])
        origin = rel + '/__init__.py'
    elif kind == 'init-file':
        files[prefix + leaf + '/__init__.py'] = body['ok']
        rel = prefix + leaf + '/__init__.py'
        name = '.'.join(live + [leaf])
        origin = rel
    else:  # main
        files[prefix + leaf + '/__init__.py'] = 'Y = 1\n'
        files[prefix + leaf + '/__main__.py'] = body['ok']
        rel = prefix + leaf + '/__main__.py'
        name = '.'.join(live + [leaf, '__main__'])
        origin = rel
    fails = kind in ('raises', 'syntax', 'missing-import', 'pkg-raises')
    return {'files': files, 'rel': rel, 'name': name, 'origin': origin, 'fails': fails, 'kind': kind,
            'marker': marker, 'index': rng.choice([-1, None, None, 0]), 'spelling': rng.choice(['abs', 'rel'])}


def run_import_case(c, scratch):
    """-> failure dict or None; also returns observations"""
    root = os.path.join(scratch, 'imp_' + c['marker'][7:])
    gt.write_tree(root, {'files': c['files'], 'dirs': []})
    old = os.getcwd()
    before_mods = set(sys.modules)
    before = list(sys.path)
    path_obj = sys.path
    problem = None
    try:
        os.chdir(scratch)
        path = os.path.join(root, c['rel']) if c['spelling'] == 'abs' else os.path.relpath(os.path.join(root, c['rel']), scratch)
        try:
            if c['index'] is None:
                m = ui().import_module_from_path(path)        # documented default: index=-1 (appended)
            else:
                m = ui().import_module_from_path(path, index=c['index'])
            outcome = 'ok'
        except Exception as ex:
            m = None
            outcome = 'raise:' + type(ex).__name__
        if sys.path is not path_obj or list(sys.path) != before:
            problem = {'expected': 'sys.path unchanged', 'impl': 'sys.path differs: %r' % (
                [p for p in sys.path if p not in before] or 'order/length changed'), 'why': 'sys.path not restored (%s)' % outcome}
        elif c['fails']:
            if m is not None:
                problem = {'expected': 'an exception', 'impl': 'module %r' % getattr(m, '__name__', None), 'why': 'a failing module was returned'}
        elif m is None:
            problem = {'expected': 'module ' + c['name'], 'impl': outcome, 'why': 'an importable module could not be imported by path'}
        else:
            got = (m.__name__, os.path.abspath(m.__file__), getattr(m, 'X', None))
            want = (c['name'], os.path.join(root, c['origin']), c['marker'])
            if got != want:
                problem = {'expected': repr(want), 'impl': repr(got), 'why': 'import_module_from_path returned another module'}
            seen = getattr(m, 'PATH_AT_IMPORT', None)
            if problem is None and seen is not None:
                # the directory given by split_modpath sits at the requested position while the module is imported
                dpath = os.path.join(root, *c['origin'].split('/')[:-(len(c['name'].split('.')) + (1 if c['origin'].endswith('/__init__.py') else 0))])
                pos = 0 if c['index'] == 0 else len(seen) - 1
                if len(seen) != len(before) + 1 or os.path.abspath(seen[pos]) != os.path.abspath(dpath):
                    problem = {'expected': 'sys.path during the import = the old list with %s at position %s' % (dpath, 'first' if pos == 0 else 'last'),
                               'impl': 'position of the directory: %s; length %d -> %d' % (
                                   [i for i, x in enumerate(seen) if os.path.abspath(x) == os.path.abspath(dpath)], len(before), len(seen)),
                               'why': 'the search directory is not inserted at the documented index'}
    finally:
        os.chdir(old)
        sys.path[:] = before
        for k in set(sys.modules) - before_mods:
            del sys.modules[k]
        importlib.invalidate_caches()
        for k in list(sys.path_importer_cache):
            if 'xdocverif-' in k:
                del sys.path_importer_cache[k]
        shutil.rmtree(root, ignore_errors=True)
    return problem, outcome


def import_misc_cases(scratch, uid):
    """import_module_from_path: a path that does not exist raises IOError; a module inside a zip archive
    (`<archive>.zip/<inner path>.py`, also with ':' as separator) is imported from the archive (docstring)."""
    import zipfile
    out = []

    def rec(case, got, exp):
        out.append({'case': case, 'expected': repr(exp), 'impl': repr(got), 'bad': None if got == exp else 'import_module_from_path: %s' % case})

    def attempt(path):
        import contextlib
        import io
        before_mods = set(sys.modules)
        before = list(sys.path)
        try:
            with contextlib.redirect_stdout(io.StringIO()):      # the real code prints its error text
                m = ui().import_module_from_path(path)
            r = ('module', getattr(m, '__name__', None), getattr(m, 'X', None))
        except IOError as ex:
            r = ('IOError',)
        except Exception as ex:
            r = ('raise', type(ex).__name__)
        finally:
            for k in set(sys.modules) - before_mods:
                del sys.modules[k]
        if list(sys.path) != before:
            sys.path[:] = before
            r = r + ('sys.path changed',)
        return r
    os.makedirs(scratch, exist_ok=True)
    rec('missing file', attempt(os.path.join(scratch, 'does-not-exist.py')), ('IOError',))
    rec('missing file in a missing directory', attempt(os.path.join(scratch, 'nodir', 'x.py')), ('IOError',))
    rec('missing archive', attempt(os.path.join(scratch, 'does-not-exist.zip', 'a.py')), ('IOError',))
    zpath = os.path.join(scratch, 'arch%s.zip' % uid)
    with zipfile.ZipFile(zpath, 'w') as z:
        z.writestr('folder%s/bar.py' % uid, "X = 'zip-marker-%s'\n" % uid)
        z.writestr('top%s.py' % uid, "X = 'zip-top-%s'\n" % uid)
    import warnings
    with warnings.catch_warnings():
        warnings.simplefilter('ignore')
        rec('module in a folder of an archive', attempt(zpath + '/folder%s/bar.py' % uid), ('module', 'folder%s/bar' % uid, 'zip-marker-%s' % uid))
        rec('archive, colon separator', attempt(zpath + ':folder%s/bar.py' % uid), ('module', 'folder%s/bar' % uid, 'zip-marker-%s' % uid))
        rec('top-level module of an archive', attempt(zpath + '/top%s.py' % uid), ('module', 'top%s' % uid, 'zip-top-%s' % uid))
        got = attempt(zpath + '/missing%s.py' % uid)
        rec('module missing from an existing archive', got[:1] if got[0] in ('raise', 'IOError') else got, ('raise',))
    return out


def syspath_order_cases(scratch, uid):
    """sys.path is EXACTLY the same list (order, duplicates, identity) after import_module_from_path and after a
    PythonPathContext block, also when the directory is already listed (front / middle / end, once or twice), for
    index in {default, -1, 0, 1, len, -len-1, beyond the end}; and a name defined in two listed directories
    resolves to the same file before and after.
    Known behaviour of the unchanged code, expected exactly: an index BEYOND the end with the directory already
    listed takes the recovery branch, which removes the FIRST occurrence (['a','b','c'], index 10 -> ['b','c','a'])."""
    import warnings
    from importlib.machinery import PathFinder
    u = ui()
    out = []
    proj = os.path.join(scratch, 'proj')
    other = os.path.join(scratch, 'other')
    third = os.path.join(scratch, 'third')
    dup = 'xv17o%s_dup' % uid
    gt.write_tree(proj, {'files': {dup + '.py': "X = 'proj'\n"}, 'dirs': []})
    gt.write_tree(other, {'files': {dup + '.py': "X = 'other'\n"}, 'dirs': []})
    os.makedirs(third, exist_ok=True)
    saved = list(sys.path)
    path_obj = sys.path
    k = max(1, len(saved) // 2)
    places = {
        'absent': saved + [other],
        'front': [proj, other] + saved,
        'middle': saved[:k] + [proj, other] + saved[k:],
        'end': saved + [other, proj],
        'second-to-last': saved + [proj, other],
        'twice front+end': [proj] + saved + [other, proj],
        'twice front+middle': [proj, other] + saved[:k] + [proj] + saved[k:],
        'other first': [other, third, proj] + saved,
    }
    counter = [0]

    def resolve():
        importlib.invalidate_caches()
        spec = PathFinder.find_spec(dup)
        a = None if spec is None else spec.origin
        b = u.modname_to_modpath(dup)
        return (a, b)

    try:
        for place, base in sorted(places.items()):
            n = len(base)
            for label, index in (('default', None), ('-1', -1), ('0', 0), ('1', 1), ('len', n), ('-len-1', -n - 1), ('-2', -2), ('beyond', n + 7)):
                for op in ('import', 'context'):
                    counter[0] += 1
                    mod = 'xv17o%s_m%d' % (uid, counter[0])
                    with open(os.path.join(proj, mod + '.py'), 'w') as fh:
                        fh.write('X = %r\n' % mod)
                    sys.path[:] = base
                    before = list(sys.path)
                    res_before = resolve()
                    before_mods = set(sys.modules)
                    outcome = None
                    with warnings.catch_warnings(record=True) as wlist:
                        warnings.simplefilter('always')
                        try:
                            if op == 'import':
                                m = (u.import_module_from_path(os.path.join(proj, mod + '.py')) if index is None
                                     else u.import_module_from_path(os.path.join(proj, mod + '.py'), index=index))
                                outcome = (m.__name__, os.path.abspath(m.__file__), getattr(m, 'X', None))
                            else:
                                ctxm = u.PythonPathContext(proj) if index is None else u.PythonPathContext(proj, index=index)
                                with ctxm:
                                    inside = list(sys.path)
                                outcome = 'inside: one more entry' if sorted(inside) == sorted(before + [proj]) else 'inside: %r' % (inside,)
                        except Exception as ex:
                            outcome = 'raise:' + type(ex).__name__
                    after = list(sys.path)
                    same_obj = sys.path is path_obj
                    for kk in set(sys.modules) - before_mods:
                        del sys.modules[kk]
                    res_after = resolve()
                    os.remove(os.path.join(proj, mod + '.py'))
                    eff_default = -1 if op == 'import' else 0
                    eff = eff_default if index is None else index
                    known = eff > n and proj in before
                    expected = list(before)
                    if known:
                        expected.remove(proj)
                        expected.append(proj)
                    case = '%s, directory %s, index %s' % (op, place, label)
                    bad = None
                    if not same_obj:
                        bad = 'sys.path was replaced by another list object'
                    elif after != expected:
                        bad = 'sys.path differs after the call (order / duplicates)'
                    elif not known and res_after != res_before:
                        bad = 'a name defined in two listed directories resolves differently afterwards'
                    elif op == 'import' and outcome != (mod, os.path.join(proj, mod + '.py'), mod):
                        bad = 'import_module_from_path returned %r' % (outcome,)
                    elif op == 'context' and outcome != 'inside: one more entry':
                        bad = 'inside the block sys.path is not the old list plus the directory: %s' % outcome
                    elif (len(wlist) > 0) != (eff > n):
                        bad = 'warning %s' % ('missing for an index beyond the end' if eff > n else 'issued: %s' % str(wlist[0].message)[:80])
                    rel = lambda lst: ['proj' if x == proj else 'other' if x == other else 'third' if x == third else '.' for x in lst]
                    out.append({'case': case, 'known_shape': known, 'expected': ' '.join(rel(expected)), 'impl': ' '.join(rel(after)),
                                'bad': None if bad is None else '%s: %s (resolution before %r, after %r)' % (
                                    case, bad, [os.path.basename(os.path.dirname(x)) if x else x for x in res_before],
                                    [os.path.basename(os.path.dirname(x)) if x else x for x in res_after])})
    finally:
        sys.path[:] = saved
        importlib.invalidate_caches()
        for kk in list(sys.path_importer_cache):
            if 'xdocverif-' in kk:
                del sys.path_importer_cache[kk]
    return out


def import_history_cases(scratch, uid):
    """import_module_from_path depends on process STATE (sys.modules): histories in which the same file is
    already loaded under ANOTHER name, is imported twice, is imported again after sys.modules was cleaned, or
    two different files carry the same module name. "Returns the module of that name": the result is the
    module whose __name__ is modpath_to_modname(path), it is sys.modules[that name], its __file__ is the file."""
    import importlib.util
    u = ui()
    out = []
    root = os.path.join(scratch, 'hist')
    pkg, leaf, top = 'xv17h%s_pkg' % uid, 'xv17h%s_leaf' % uid, 'xv17h%s_top' % uid
    same = 'xv17h%s_same' % uid
    script = '\n'.join([
        'import json, os, sys',
        'X = %r',
        "if __name__ == '__main__':",
        '    from xdoctest.utils import util_import',
        '    before = list(sys.path)',
        '    path = os.path.abspath(__file__)',
        '    m = util_import.import_module_from_path(path)',
        "    print(json.dumps({'name': m.__name__, 'file': os.path.abspath(m.__file__), 'is_main': m is sys.modules['__main__'],",
        "                      'registered': sys.modules.get(util_import.modpath_to_modname(path)) is m,",
        "                      'expected': util_import.modpath_to_modname(path), 'syspath_same': list(sys.path) == before}))",
        ''])
    gt.write_tree(root, {'files': {
        pkg + '/__init__.py': "X = 'pkg'\n", pkg + '/' + leaf + '.py': script % 'leaf', pkg + '/sub/__init__.py': "X = 'sub'\n",
        pkg + '/sub/deep.py': "X = 'deep'\n", top + '.py': script % 'top',
        'd1/' + same + '.py': "X = 'd1'\n", 'd2/' + same + '.py': "X = 'd2'\n"}, 'dirs': []})
    saved = list(sys.path)
    path_obj = sys.path
    before_mods = set(sys.modules)

    def clean():
        for k in set(sys.modules) - before_mods:
            del sys.modules[k]
        importlib.invalidate_caches()

    def rec(case, bad, expected='', impl=''):
        out.append({'case': case, 'expected': expected, 'impl': impl, 'bad': None if not bad else '%s: %s' % (case, bad)})

    def imp(path, case, name, origin, **kw):
        """one call + the checks every call must satisfy; returns the module (or None)"""
        before = list(sys.path)
        try:
            m = u.import_module_from_path(path, **kw)
        except Exception as ex:
            rec(case, 'raised %s' % type(ex).__name__, 'module ' + name, repr(ex)[:200])
            return None
        want = (name, os.path.join(root, origin))
        got = (getattr(m, '__name__', None), os.path.abspath(getattr(m, '__file__', '') or ''))
        own = u.modpath_to_modname(path)
        bad = None
        if sys.path is not path_obj or list(sys.path) != before:
            bad = 'sys.path changed'
        elif got != want:
            bad = 'returned module %r from %r' % got
        elif own != name:
            bad = 'modpath_to_modname(path) = %r' % own
        elif sys.modules.get(name) is not m:
            bad = 'the returned module is not sys.modules[%r]' % name
        rec(case, bad, 'module %r from %r, registered under that name' % want, '%r' % (got,))
        return m

    try:
        leaf_path = os.path.join(root, pkg, leaf + '.py')
        leaf_name, leaf_origin = pkg + '.' + leaf, pkg + '/' + leaf + '.py'
        # H1: the file was imported earlier under its SHORT name through a search entry inside the package
        sys.path.insert(0, os.path.join(root, pkg))
        alias = importlib.import_module(leaf)
        sys.path[:] = saved
        m = imp(leaf_path, 'file already loaded under its short name (search entry inside the package)', leaf_name, leaf_origin)
        if m is not None and m is alias:
            rec('alias identity', 'the module loaded under the short name %r was returned' % leaf)
        m2 = imp(leaf_path, 'same path again (alias still loaded)', leaf_name, leaf_origin)
        if m is not None and m2 is not None:
            rec('second import of the same path returns the same module object', None if m2 is m else 'another object')
        clean()
        # H2: the file is loaded under an arbitrary other name / as __main__-like module (spec_from_file_location)
        for alias_name in ('xv17h%s_alias' % uid, '__xv17h%s_main__' % uid):
            spec = importlib.util.spec_from_file_location(alias_name, leaf_path)
            am = importlib.util.module_from_spec(spec)
            sys.modules[alias_name] = am
            spec.loader.exec_module(am)
            m = imp(leaf_path, 'file already loaded under the name %s' % alias_name.replace(uid, ''), leaf_name, leaf_origin)
            if m is not None and m is am:
                rec('alias identity', 'the module loaded as %r was returned' % alias_name)
            clean()
        # H3: twice, then after sys.modules was cleaned, with every way of naming the package
        deep_path = os.path.join(root, pkg, 'sub', 'deep.py')
        a = imp(deep_path, 'first import', pkg + '.sub.deep', pkg + '/sub/deep.py')
        b = imp(deep_path, 'second import of the same path', pkg + '.sub.deep', pkg + '/sub/deep.py', index=0)
        if a is not None and b is not None:
            rec('second import returns the cached module', None if a is b else 'another object')
        p1 = imp(os.path.join(root, pkg), 'package by directory', pkg, pkg + '/__init__.py')
        p2 = imp(os.path.join(root, pkg, '__init__.py'), 'package by its __init__.py', pkg, pkg + '/__init__.py')
        if p1 is not None and p2 is not None:
            rec('directory and __init__.py give the same package object', None if p1 is p2 else 'another object')
        if a is not None and p1 is not None:
            rec('the parent package of the first import is the package', None if sys.modules.get(pkg) is p1 else 'another object')
        clean()
        c = imp(deep_path, 'import after sys.modules was cleaned', pkg + '.sub.deep', pkg + '/sub/deep.py')
        if a is not None and c is not None:
            rec('after the cleanup the file is executed again (new object)', None if c is not a else 'the stale object came back')
        clean()
        # H4: two different files with the same module name (cf. K-C10-c: the cached module of that NAME is returned)
        s1 = imp(os.path.join(root, 'd1', same + '.py'), 'first of two files with the same module name', same, 'd1/' + same + '.py')
        try:
            s2 = u.import_module_from_path(os.path.join(root, 'd2', same + '.py'))
            ok = s2.__name__ == same and (s2 is s1 or os.path.abspath(s2.__file__) == os.path.join(root, 'd2', same + '.py'))
            rec('second of two files with the same module name: the module of that name (cached, K-C10-c) or the new file',
                None if ok else 'returned %r from %r' % (s2.__name__, s2.__file__))
        except Exception as ex:
            rec('second of two files with the same module name', 'raised %r' % (ex,))
        clean()
        imp(os.path.join(root, 'd2', same + '.py'), 'second file after sys.modules was cleaned', same, 'd2/' + same + '.py')
        clean()
        # H5: the script the interpreter was started with imports its own path (child processes)
        for case, rel, name in (('script inside a package imports its own path', pkg + '/' + leaf + '.py', leaf_name),
                                ('top-level script imports its own path', top + '.py', top)):
            proc = subprocess.run([sys.executable, os.path.join(root, rel)], stdout=subprocess.PIPE, stderr=subprocess.PIPE,
                                  env=dict(os.environ, PYTHONDONTWRITEBYTECODE='1'), cwd=scratch, timeout=300)
            try:
                import json
                got = json.loads(proc.stdout.decode().strip().split('\n')[-1])
            except Exception:
                rec(case, 'the child failed: %s' % proc.stderr.decode()[-300:])
                continue
            want = {'name': name, 'file': os.path.join(root, rel), 'is_main': False, 'registered': True, 'expected': name, 'syspath_same': True}
            rec(case, None if got == want else 'returned the module %r (is __main__: %s)' % (got.get('name'), got.get('is_main')), repr(want), repr(got))
    finally:
        sys.path[:] = saved
        clean()
        for kk in list(sys.path_importer_cache):
            if 'xdocverif-' in kk:
                del sys.path_importer_cache[kk]
    return out


def import_suite(ctx, corr, n):
    scratch0 = tempfile.mkdtemp(prefix='xdocverif-')
    try:
        for pr in import_history_cases(scratch0, '%d_%d' % (os.getpid(), ctx.seed)):
            corr.count('import_module_from_path:histories (sys.modules state)')
            corr.nontriv(('imph', pr['case']))
            if pr.get('bad'):
                corr.expect_fail('eager-oracle:IMPH', {'api': 'IMPH'}, pr['expected'], pr['impl'], pr['bad'])
        for pr in syspath_order_cases(os.path.join(scratch0, 'order'), '%d_%d' % (os.getpid(), ctx.seed)):
            corr.count('sys.path exact before/after (directory already listed)')
            corr.nontriv(('spo', pr['case']))
            corr.tag('sys.path:known-shape index beyond the end, directory listed' if pr['known_shape'] else 'sys.path:exact')
            if pr.get('bad'):
                corr.expect_fail('eager-oracle:SPO', {'api': 'SPO'}, pr['expected'], pr['impl'], pr['bad'])
        for pr in import_misc_cases(scratch0, '%d_%d' % (os.getpid(), ctx.seed)):
            corr.count('import_module_from_path:missing/zip')
            corr.nontriv(('impmisc', pr['case']))
            if pr.get('bad'):
                corr.expect_fail('eager-oracle:IMPX', {'api': 'IMPX'}, pr['expected'], pr['impl'], pr['bad'])
    finally:
        shutil.rmtree(scratch0, ignore_errors=True)
    import_suite_(ctx, corr, n)


def import_suite_(ctx, corr, n):
    rng = ctx.sub_rng('import')
    scratch = tempfile.mkdtemp(prefix='xdocverif-')
    lines, metas = [], []
    try:
        for k in range(n):
            c = _import_case(scratch, '%d_%d_%d' % (os.getpid(), ctx.seed, k), rng)
            # the model's name for this path (listing taken before the import)
            root = os.path.join(scratch, 'imp_' + c['marker'][7:])
            gt.write_tree(root, {'files': c['files'], 'dirs': []})
            files, dirs = gt.listing(root)
            lines.append('\t'.join(['imp', encl(files), encl(dirs), 'M:101:%s' % enc(os.path.join(root, c['rel']))]))
            metas.append(c)
            shutil.rmtree(root)
            problem, outcome = run_import_case(c, scratch)
            corr.count('import_module_from_path')
            corr.tag('import:%s:%s' % (c['kind'], 'ok' if outcome == 'ok' else 'raises'))
            corr.nontriv(('imp', c['marker']))
            if problem:
                corr.expect_fail('import_module_from_path', {'api': 'IMP', 'case': c}, problem['expected'], problem['impl'], problem['why'])
        for c, a in zip(metas, driver.run_lines(lines)):
            corr.count('import:model-name')
            if decode_answer(a) != 'ok ' + c['name']:
                corr.disagree('model-vs-construction:import-name', {'api': 'IMP', 'case': c}, decode_answer(a), 'ok ' + c['name'])
    finally:
        shutil.rmtree(scratch, ignore_errors=True)


# ------------------------------------------------------------------ string pipeline of modpath_to_modname
def rel2name_suite(ctx, corr, maxlen):
    """modpath_to_modname('/zz9q/' + s, check=False, relativeto='/zz9q/x') exercises splitext -> cut at
    the first dot -> separators to dots on (the normal form of) an arbitrary string"""
    alphabet = ['a', '_', '.', '/', '\\']
    strs = []
    for n in range(1, maxlen + 1):
        strs.extend(''.join(t) for t in itertools.product(alphabet, repeat=n))
    strs += ['a.cpython-312-x86_64-linux-gnu.so', 'pkg/sub/mod.py', 'pkg.v2/mod.py', '.hidden', '..', 'a..py', 'a/.b.c', '__init__.py',
             'a/__init__.py', 'a/__main__.py', '__main__.py']
    real, lines = [], []
    for s in strs:
        full = '/zz9q/' + s
        ap = os.path.abspath(full)
        for hi, hm in ((1, 0), (0, 1)):
            try:
                r = ui().modpath_to_modname(full, hide_init=bool(hi), hide_main=bool(hm), check=False, relativeto='/zz9q/x')
            except Exception as ex:
                r = 'raise:' + type(ex).__name__
            real.append((s, hi, hm, r))
            lines.append('L:%d%d:%s:%s' % (hi, hm, enc(ap), enc('/zz9q/x')))
    chunk = 2000
    for i in range(0, len(lines), chunk):
        ans = driver.run_lines(['\t'.join(['imp', '~', enc('/')] + lines[i:i + chunk])])[0].split('\t')
        for (s, hi, hm, r), a in zip(real[i:i + chunk], ans):
            corr.count('modpath_to_modname:string-pipeline')
            if '.' in s or '/' in s:
                corr.nontriv(('L', s, hi, hm))
            m = dec(a)
            corr.tag('pipeline:' + ('dot-cut' if '.' in s.rsplit('/', 1)[-1][:-1].lstrip('.') or '.' in s.rsplit('/', 1)[0] else 'plain'))
            if m != r:
                corr.disagree('model-vs-code:L', {'api': 'L', 's': s, 'hi': hi, 'hm': hm}, m, r)


# ------------------------------------------------------------------ fixed families: excluded points, several entries
def fixed_suites(ctx, corr):
    scratch = tempfile.mkdtemp(prefix='xdocverif-')
    old = os.getcwd()
    try:
        # (1) a DIRECTORY named __init__.py (excluded point of NoInitDir): model == code, both != regular-package rule
        top = os.path.join(scratch, 'initdir')
        tree = {'files': {'w/m.py': 'X=1\n', 'w/k/__init__.py': '', 'w/k/z.py': ''}, 'dirs': ['w/__init__.py']}
        gt.write_tree(os.path.join(top, 'root'), tree)
        os.chdir(top)
        entry = os.path.join(top, 'root')
        files, dirs = gt.listing(top)
        qs, reals = [], []
        for name in ('w', 'w.m', 'w.k', 'w.k.z', 'w.__init__'):
            for hi in (1, 0):
                qs.append('R:%d0:%s:%s' % (hi, enc(entry), enc(name)))
                reals.append((name, real_resolve(name, [entry], hi, 0)))
        ans = driver.run_lines(['\t'.join(['imp', encl(files), encl(dirs)] + qs)])[0].split('\t')
        # directories named __main__.py / __init__.py met by normalize_modpath, split_modpath, modpath_to_modname
        gt.write_tree(os.path.join(top, 'root'), {'files': {'v/__init__.py': '', 'v/__main__.py/__init__.py': '', 'v/__main__.py/q.py': '',
                                                             'u/__main__.py/__init__.py': ''}, 'dirs': []})
        files, dirs = gt.listing(top)
        for rel in ('v/__main__.py/__init__.py', 'v/__main__.py', 'v/__main__.py/q.py', 'u/__main__.py/__init__.py', 'u/__main__.py',
                    'w/__init__.py', 'w/__init__.py/__init__.py', 'w/m.py'):
            path = os.path.join(entry, rel)
            for hi, hm in FLAGS:
                qs.append('N:%d%d:%s' % (hi, hm, enc(path)))
                reals.append((rel, real_norm(path, hi, hm)))
                qs.append('M:%d%d1:%s' % (hi, hm, enc(path)))
                reals.append((rel, real_m2n(path, hi, hm, 1)))
            qs.append('S:1:%s' % enc(path))
            reals.append((rel, real_split(path, 1)))
        ans = driver.run_lines(['\t'.join(['imp', encl(files), encl(dirs)] + qs)])[0].split('\t')
        for (name, r), a in zip(reals, ans):
            corr.count('excluded-point:init-directory')
            if decode_answer(a) != r:
                corr.disagree('model-vs-code:R', {'api': 'R', 'name': name, 'tree': tree, 'spelling': 'abs'}, decode_answer(a), r)
            if name in ('w.m', 'w.k.z') and r.startswith('some ') and orc.ff_resolve(entry, name) is None:
                corr.tag('excluded-point:init-directory: code resolves %s, regular-package rule finds nothing' % name)
        # (1b) the default search path (sys_path=None -> sys.path) and the `exclude` argument
        for problem in default_syspath_cases(scratch, '%d_%d' % (os.getpid(), ctx.seed)):
            corr.count('default-sys.path/exclude')
            corr.nontriv(('dsp', problem['case']))
            if problem.get('bad'):
                corr.expect_fail('eager-oracle:DSP', {'api': 'DSP'}, problem['expected'], problem['impl'], problem['bad'])
        # (1c) development-mode link files in a search path entry (outside the model; expectations by construction)
        for problem in linkfile_cases(os.path.join(scratch, 'links'), '%d_%d' % (os.getpid(), ctx.seed)):
            corr.count('link-files (egg-link, __editable__ pth/finder)')
            corr.nontriv(('lnk', problem['case']))
            if problem.get('bad'):
                corr.expect_fail('eager-oracle:LNK', {'api': 'LNK'}, problem['expected'], problem['impl'], problem['bad'])
        # (2) several entries, shadowing
        top = os.path.join(scratch, 'multi')
        rng = ctx.sub_rng('multi')
        for k in range(12 if ctx.quick else 80):
            t = os.path.join(top, 'm%d' % k)
            ents, etrees = [], []
            for e in range(rng.randint(2, 3)):
                tr = gt.gen_tree(rng, max_depth=3, width=3)
                gt.write_tree(os.path.join(t, 'e%d' % e), tr)
                ents.append(os.path.join(t, 'e%d' % e))
                etrees.append(tr)
            names = set()
            for e in ents:
                for dp, dn, fn in os.walk(e):
                    relp = os.path.relpath(dp, e)
                    for x in dn + [f[:-3] for f in fn if f.endswith('.py')]:
                        names.add((relp + '/' + x if relp != '.' else x).replace('/', '.'))
            names = sorted(names)
            if not names:
                continue
            files, dirs = gt.listing(t)
            qs, reals = [], []
            for name in names:
                r = real_resolve(name, ents, 1, 0)
                qs.append('R:10:%s:%s' % ('|'.join(enc(e) for e in ents), enc(name)))
                reals.append((name, r))
                qs.append('Q:%s:%s' % ('|'.join(enc(e) for e in ents), enc(name)))
                reals.append((name, None))
            ans = driver.run_lines(['\t'.join(['imp', encl(files), encl(dirs)] + qs)])[0].split('\t')
            for i in range(0, len(ans), 2):
                name, r = reals[i]
                m, q = decode_answer(ans[i]), decode_answer(ans[i + 1])
                corr.count('several-entries')
                corr.nontriv(('multi', k, name))
                if m != r:
                    corr.disagree('model-vs-code:R', {'api': 'Rmulti', 'name': name, 'trees': etrees}, m, r)
                if not _touches_namespace(ents, name) and not _shadowed(ents, name):
                    corr.count('oracle:PathFinder-rule')
                    exp = canon_expected(full_regular(ents, name), 1)
                    if r != exp:
                        corr.expect_fail('eager-oracle:Rmulti', {'api': 'Rmulti', 'name': name, 'trees': etrees}, exp, r,
                                         'several entries: differs from the import system (first entry that knows the name)')
                full = orc.interpreter_resolve(ents, name)
                qk = 'none' if q == 'none' else q.split(' ')[0]
                fk = 'none' if full is None or full[0] == 'ns' else full[0]
                if fk != qk and not (full and full[0] == 'ns'):
                    # the spec for several entries must be PathFinder's regular rule (namespace portions aside)
                    if not _touches_namespace(ents, name):
                        corr.disagree('spec-vs-importlib', {'api': 'Q', 'name': name, 'entries': ents}, q, repr(full))
                if (r == 'none') != (qk == 'none'):
                    corr.tag('several-entries: shadowing, code and interpreter differ (observation)')
                else:
                    corr.tag('several-entries: agree')
            shutil.rmtree(t, ignore_errors=True)
    finally:
        os.chdir(old)
        shutil.rmtree(scratch, ignore_errors=True)


def full_regular(entries, name):
    f = orc.interpreter_resolve(entries, name)
    return None if f is None or f[0] == 'ns' else f


def _shadowed(entries, name):
    """an entry that does not resolve the whole name knows its top-level component (theorem guard noShadow)"""
    top = name.split('.')[0]
    for e in entries:
        if orc.ff_resolve(e, name) is not None:
            return False
        if orc.ff_resolve(e, top) is not None:
            return True
    return False


def linkfile_cases(scratch, uid):
    """`<pkg>.egg-link`, `__editable__.<pkg>-<ver>.pth` and `__editable___<pkg>_<ver>_finder.py` inside a search
    path entry redirect the search to another directory (what `pip install -e` leaves in site-packages)."""
    u = ui()
    out = []

    def rec(case, got, exp):
        out.append({'case': case, 'expected': repr(exp), 'impl': repr(got),
                    'bad': None if got == exp else 'development-mode link file: %s' % case})

    def target(tag, pkg):
        t = os.path.join(scratch, 'target_' + tag)
        gt.write_tree(t, {'files': {pkg + '/__init__.py': '', pkg + '/m.py': 'X=1\n', pkg + '/sub/__init__.py': '',
                                    pkg + '/nopkg/y.py': ''}, 'dirs': []})
        return t
    # egg-link (package name, and the hyphenated distribution name)
    for tag, pkg, fname in (('egg', 'xv17lk' + uid, 'xv17lk' + uid + '.egg-link'),
                            ('egghy', 'xv17_lk' + uid, ('xv17_lk' + uid).replace('_', '-') + '.egg-link')):
        t = target(tag, pkg)
        e = os.path.join(scratch, 'entry_' + tag)
        gt.write_tree(e, {'files': {fname: t + '\n.\n', 'other.py': ''}, 'dirs': []})
        rec(tag + ': module', u.modname_to_modpath(pkg + '.m', sys_path=[e]), os.path.join(t, pkg, 'm.py'))
        rec(tag + ': package', u.modname_to_modpath(pkg + '.sub', sys_path=[e]), os.path.join(t, pkg, 'sub'))
        rec(tag + ': chain without init', u.modname_to_modpath(pkg + '.nopkg.y', sys_path=[e]), None)
        rec(tag + ': other name', u.modname_to_modpath(pkg + 'x', sys_path=[e]), None)
        rec(tag + ': target excluded', u._syspath_modname_to_modpath(pkg + '.m', sys_path=[e], exclude=[t]), None)
        e0 = os.path.join(scratch, 'entry0_' + tag)
        gt.write_tree(e0, {'files': {pkg + '/__init__.py': '', pkg + '/m.py': ''}, 'dirs': []})
        rec(tag + ': a direct hit in an earlier entry wins', u.modname_to_modpath(pkg + '.m', sys_path=[e0, e]), os.path.join(e0, pkg, 'm.py'))
        rec(tag + ': the link in an earlier entry wins', u.modname_to_modpath(pkg + '.m', sys_path=[e, e0]), os.path.join(t, pkg, 'm.py'))
    other = os.path.join(scratch, 'unrelated')
    os.makedirs(other, exist_ok=True)

    def late_entry(tag, pkg):
        """an ordinary entry holding the same package plus a module the link target lacks"""
        e = os.path.join(scratch, 'late_' + tag)
        gt.write_tree(e, {'files': {pkg + '/__init__.py': '', pkg + '/m.py': '', pkg + '/onlylate.py': ''}, 'dirs': []})
        return e
    for tag, pkg, fname in (('egg2', 'xv17lq' + uid, 'xv17lq' + uid + '.egg-link'),):
        t = target(tag, pkg)
        e = os.path.join(scratch, 'entry_' + tag)
        gt.write_tree(e, {'files': {fname: t + '\n.\n'}, 'dirs': []})
        rec(tag + ': unrelated directory excluded', u._syspath_modname_to_modpath(pkg + '.m', sys_path=[e], exclude=[other]), os.path.join(t, pkg, 'm.py'))
        late = late_entry(tag, pkg)
        rec(tag + ': target lacks the module, a later entry has it', u.modname_to_modpath(pkg + '.onlylate', sys_path=[e, late]),
            os.path.join(late, pkg, 'onlylate.py'))
    # __editable__ pth (the path is the LAST line of the file)
    pkg = 'xv17pt' + uid
    t = target('pth', pkg)
    e = os.path.join(scratch, 'entry_pth')
    gt.write_tree(e, {'files': {'__editable__.%s-0.1.0.pth' % pkg: os.path.join(scratch, 'not-this-line') + '\n' + t + '\n'}, 'dirs': []})
    late = late_entry('pth', pkg)
    rec('pth: module', u.modname_to_modpath(pkg + '.m', sys_path=[e]), os.path.join(t, pkg, 'm.py'))
    rec('pth: other name', u.modname_to_modpath(pkg + 'x.m', sys_path=[e]), None)
    rec('pth: target excluded', u._syspath_modname_to_modpath(pkg + '.m', sys_path=[e], exclude=[t]), None)
    rec('pth: unrelated directory excluded', u._syspath_modname_to_modpath(pkg + '.m', sys_path=[e], exclude=[other]), os.path.join(t, pkg, 'm.py'))
    rec('pth: the link in an earlier entry wins', u.modname_to_modpath(pkg + '.m', sys_path=[e, late]), os.path.join(t, pkg, 'm.py'))
    rec('pth: target lacks the module, a later entry has it', u.modname_to_modpath(pkg + '.onlylate', sys_path=[e, late]),
        os.path.join(late, pkg, 'onlylate.py'))
    t2 = target('pth2', pkg)
    os.remove(os.path.join(t, pkg, 'sub', '__init__.py'))
    gt.write_tree(e, {'files': {'__editable__.%s-0.2.0.pth' % pkg: t2 + '\n'}, 'dirs': []})
    rec('pth: two files, the first target lacks the package, the second has it', u.modname_to_modpath(pkg + '.sub', sys_path=[e]),
        os.path.join(t2, pkg, 'sub'))
    # __editable__ finder
    pkg = 'xv17fd' + uid
    t = target('finder', pkg)
    e = os.path.join(scratch, 'entry_finder')
    gt.write_tree(e, {'files': {'__editable___%s_0_1_0_finder.py' % pkg: 'MAPPING = {%r: %r}\n' % (pkg, os.path.join(t, pkg)),
                                '__editable___zzother_0_1_0_finder.py': 'NOTHING = 1\n'}, 'dirs': []})
    late = late_entry('finder', pkg)
    rec('finder: module', u.modname_to_modpath(pkg + '.m', sys_path=[e]), os.path.join(t, pkg, 'm.py'))
    rec('finder: name not in the mapping', u.modname_to_modpath(pkg + 'x.m', sys_path=[e]), None)
    rec('finder: target excluded', u._syspath_modname_to_modpath(pkg + '.m', sys_path=[e], exclude=[t]), None)
    rec('finder: unrelated directory excluded', u._syspath_modname_to_modpath(pkg + '.m', sys_path=[e], exclude=[other]), os.path.join(t, pkg, 'm.py'))
    rec('finder: the link in an earlier entry wins', u.modname_to_modpath(pkg + '.m', sys_path=[e, late]), os.path.join(t, pkg, 'm.py'))
    rec('finder: target lacks the module, a later entry has it', u.modname_to_modpath(pkg + '.onlylate', sys_path=[e, late]),
        os.path.join(late, pkg, 'onlylate.py'))
    rec('finder: the package itself, the link in an earlier entry wins', u.modname_to_modpath(pkg, sys_path=[e, late]),
        os.path.join(t, pkg))
    e2 = os.path.join(scratch, 'entry_finder2')
    tb = target('finderB', pkg)
    os.remove(os.path.join(t, pkg, 'sub', '__init__.py'))
    gt.write_tree(e2, {'files': {'__editable___%s_0_1_0_finder.py' % pkg: 'MAPPING = {%r: %r}\n' % (pkg, os.path.join(t, pkg)),
                                 '__editable___%s_0_2_0_finder.py' % pkg: 'MAPPING = {%r: %r}\n' % (pkg, os.path.join(tb, pkg))}, 'dirs': []})
    rec('finder: two files, the first target lacks the package, the second has it', u.modname_to_modpath(pkg + '.sub', sys_path=[e2]),
        os.path.join(tb, pkg, 'sub'))
    rec('finder: two files, both hold the module: the first wins', u.modname_to_modpath(pkg + '.m', sys_path=[e2]), os.path.join(t, pkg, 'm.py'))
    other_pkg = 'xv17zz' + uid
    late2 = late_entry('finder_other', other_pkg)
    rec('finder: entry with finders that do not know the name, a later entry has it', u.modname_to_modpath(other_pkg + '.m', sys_path=[e, late2]),
        os.path.join(late2, other_pkg, 'm.py'))
    return out


def default_syspath_cases(scratch, uid):
    """sys_path=None means the interpreter's own sys.path (first/last position, '' = cwd); `exclude`
    removes search directories. Expectations by construction (unique module names)."""
    u = ui()
    top = 'xv17d%s' % uid
    e1 = os.path.join(scratch, 'dsp1')
    e2 = os.path.join(scratch, 'dsp2')
    gt.write_tree(e1, {'files': {top + '/__init__.py': '', top + '/sub/__init__.py': '', top + '/sub/m.py': 'X=1\n',
                                 top + '/__main__.py': ''}, 'dirs': []})
    gt.write_tree(e2, {'files': {top + '/__init__.py': '', top + '/only2.py': '', top + '_single.py': ''}, 'dirs': []})
    out = []

    def rec(case, got, exp):
        out.append({'case': case, 'expected': repr(exp), 'impl': repr(got),
                    'bad': None if got == exp else 'default sys.path / exclude handling: %s' % case})
    saved = list(sys.path)
    old = os.getcwd()
    try:
        name = top + '.sub.m'
        want = os.path.join(e1, top, 'sub', 'm.py')
        rec('not on sys.path', u.modname_to_modpath(name), None)
        rec('not on sys.path: importable', u.is_modname_importable(name), False)
        for pos in ('first', 'last'):
            sys.path[:] = ([e1] + saved) if pos == 'first' else (saved + [e1])
            rec('sys.path %s' % pos, u.modname_to_modpath(name), want)
            rec('sys.path %s hide_main' % pos, u.modname_to_modpath(top + '.__main__', hide_main=True), os.path.join(e1, top))
            rec('sys.path %s: importable' % pos, u.is_modname_importable(name), True)
            rec('sys.path %s, excluded' % pos, u._syspath_modname_to_modpath(name, exclude=[e1]), None)
            rec('sys.path %s, importable, excluded' % pos, u.is_modname_importable(name, exclude=[e1 + '/']), False)
            rec('sys.path %s, other dir excluded' % pos, u._syspath_modname_to_modpath(name, exclude=[e2]), want)
        sys.path[:] = saved + [e1, e2]
        rec('two entries', u.modname_to_modpath(top), os.path.join(e1, top))
        rec('two entries, first excluded', u._syspath_modname_to_modpath(top, exclude=[e1]), os.path.join(e2, top))
        rec('two entries, first excluded (explicit sys_path)', u._syspath_modname_to_modpath(top, sys_path=[e1, e2], exclude=[e1]),
            os.path.join(e2, top))
        rec('two entries, both excluded', u._syspath_modname_to_modpath(top, sys_path=[e1, e2], exclude=[e2, e1]), None)
        rec('importable with explicit empty sys_path', u.is_modname_importable(top, sys_path=[]), False)
        rec('second entry only', u.modname_to_modpath(top + '_single'), os.path.join(e2, top + '_single.py'))
        sys.path[:] = saved + ['']
        os.chdir(e1)
        got = u.modname_to_modpath(name)
        rec("'' on sys.path means cwd", None if got is None else os.path.abspath(got), want)
    finally:
        os.chdir(old)
        sys.path[:] = saved
    return out


def _touches_namespace(entries, name):
    """some prefix of the name is a bare directory in some entry (then namespace portions play a role)"""
    parts = name.split('.')
    for e in entries:
        for i in range(1, len(parts) + 1):
            d = os.path.join(e, *parts[:i])
            if os.path.isdir(d) and not os.path.isfile(os.path.join(d, '__init__.py')):
                return True
    return False


SUITE_DEADLINE = 240


def _run_suite(label, ctx, corr):
    if label == 'import':
        import_suite(ctx, corr, 60 if ctx.quick else 400)
    elif label == 'rel2name':
        rel2name_suite(ctx, corr, 5 if ctx.quick else 6)
    else:
        fixed_suites(ctx, corr)


# ------------------------------------------------------------------ correspondence
def correspondence(ctx, corr):
    nshards = 16
    per = 30 if ctx.quick else 300
    res = par.pmap(_shard, [(ctx.seed, s, per, ctx.quick) for s in range(nshards)])
    for acc in res:
        for k, v in acc.counts.items():
            corr.count(k, v)
        for k, v in acc.tags.items():
            corr.tag(k, v)
        corr.nontrivial_extra += acc.nontriv
        corr.unknown += acc.unknown
        for s in acc.samples:
            corr.sample(s)
        for suite, inp, m, r in acc.disagree:
            corr.disagree(suite, inp, m, r)
        for e in acc.expect:
            corr.expect_fail('eager-oracle:' + e['input']['api'], e['input'], e['expected'], e['impl'], e['why'])
    for label in ('import', 'rel2name', 'fixed'):
        try:
            with deadline(SUITE_DEADLINE):
                _run_suite(label, ctx, corr)
        except Hang:
            corr.expect_fail('hang', {'api': 'SUITE', 'suite': label}, 'every call returns', 'no answer within %d s' % SUITE_DEADLINE,
                             'hang: a call of the %s suite did not return' % label)
    corr.sample({'op': 'imp', 'note': 'one line per tree: listing (absolute files, dirs, ancestors) + queries R/P/S/M/N'})


# ------------------------------------------------------------------ independent check of one recorded case
def eval_case(inp, top):
    """the PROPERTY on the real code for one recorded input, independent oracles only; the tree is
    already written below ``top``. -> failure dict or None"""
    api = inp.get('api')
    root = os.path.join(top, 'root')
    entry, cwd = spell(inp.get('spelling', 'abs'), top)
    os.chdir(cwd)
    root_init = os.path.exists(os.path.join(root, '__init__.py'))
    if api == 'HANG':
        rng = random.Random(0)
        for name in gt.candidate_names(inp['tree'], rng, limit=1000):
            f = eval_case(dict(inp, api='R', name=name), top)
            if f:
                return f
        for rel in sorted(inp['tree']['files']) + gt.all_dirs(inp['tree']):
            f = eval_case(dict(inp, api='S', rel=rel), top)
            if f:
                return f
        return None
    if api in ('R', 'P', 'RT'):
        name = inp['name']
        found = orc.ff_resolve(entry, name)
        for hi, hm in FLAGS:
            r = real_resolve(name, [entry], hi, hm)
            exp = canon_expected(found, hi, hm)
            if r != exp:
                return {'api': 'modname_to_modpath(%r, hide_init=%s, hide_main=%s, sys_path=[%r])' % (name, bool(hi), bool(hm), entry),
                        'observed': r, 'expected_by_importlib': exp}
            if found is not None and not root_init:
                bad = _flag_roundtrip_violation(name, found, r[5:], hi, hm)
                if bad:
                    return {'api': 'modname_to_modpath(%r, hide_init=%s, hide_main=%s, sys_path=[%r]) and back' % (name, bool(hi), bool(hm), entry),
                            'observed': r, 'why': bad}
        r10 = real_resolve(name, [entry], 1, 0)
        if r10.startswith('some ') and not root_init and name.split('.')[-1] != '__init__':
            back = real_m2n(r10[5:], 1, 0, 1)
            if back != 'ok ' + name:
                return {'api': 'modpath_to_modname(modname_to_modpath(%r, sys_path=[%r]))' % (name, entry),
                        'observed': back, 'expected': 'ok ' + name}
        return defaults_violation(entry, name=name)
    rel = inp.get('rel', '')
    path = os.path.join(entry, rel) if rel else (entry or '.')
    ap = os.path.abspath(path)
    dv = defaults_violation(entry, path=path)
    if dv:
        return dv
    rs = real_split(path, 1)
    should_fail = (not os.path.exists(ap)) or (os.path.isdir(ap) and not os.path.exists(os.path.join(ap, '__init__.py')))
    bad = None
    if rs.startswith('ok '):
        d, r2 = rs[3:].rsplit(' ', 1) if ' ' in rs[3:] else (rs[3:], '')
        bad = 'accepted a path that is not a module' if should_fail else orc.split_spec_violation(ap, d, r2)
    elif not should_fail:
        bad = 'rejected an existing module path'
    if bad:
        return {'api': 'split_modpath(%r)' % path, 'observed': rs, 'expected': 'split specification', 'why': bad}
    for hi, hm in FLAGS:
        f = _m2n_importlib_violation(path, hi, hm)
        if f:
            return dict(f, api='modpath_to_modname(%r, hide_init=%s, hide_main=%s)' % (path, bool(hi), bool(hm)))
    return None


def check_case(inp):
    """check_case_ with a watchdog: a call that does not return is a failure"""
    limit = SUITE_DEADLINE if inp.get('api') == 'SUITE' else CASE_DEADLINE
    try:
        with deadline(limit):
            return check_case_(inp)
    except Hang:
        return {'api': 'util_import on this input', 'observed': 'no answer within %d s' % limit, 'hang': True,
                'expected': 'every call returns'}


def check_case_(inp):
    """rebuilds the tree of a recorded input in a fresh scratch directory and evaluates the PROPERTY on
    the real code with the independent oracles only. -> failure dict or None"""
    api = inp.get('api')
    if api == 'L':
        return None     # string pipeline: no oracle independent of the model (trees cover it through MB)
    scratch = tempfile.mkdtemp(prefix='xdocverif-')
    old = os.getcwd()
    try:
        if api == 'IMP':
            problem, outcome = run_import_case(inp['case'], scratch)
            return problem
        if api == 'SUITE':
            from .. import core
            c2 = core.Corr()
            _run_suite(inp['suite'], core.Ctx('C17', 'quick', 0), c2)     # under the watchdog of check_case
            for e in c2.expect_failures:
                return {'api': 'suite ' + inp['suite'], 'observed': e['impl'], 'expected': e['expected'], 'why': e['why']}
            return None
        if api == 'IMPH':
            for pr in import_history_cases(scratch, 'r%d' % os.getpid()):
                if pr.get('bad'):
                    return {'api': 'import_module_from_path after a history of imports', 'observed': pr['impl'],
                            'expected': pr['expected'], 'why': pr['bad']}
            return None
        if api == 'SPO':
            for pr in syspath_order_cases(os.path.join(scratch, 'order'), 'r%d' % os.getpid()):
                if pr.get('bad'):
                    return {'api': 'import_module_from_path / PythonPathContext with the directory already on sys.path',
                            'observed': pr['impl'], 'expected': pr['expected'], 'why': pr['bad']}
            return None
        if api == 'IMPX':
            for pr in import_misc_cases(os.path.join(scratch, 'impx'), 'r%d' % os.getpid()):
                if pr.get('bad'):
                    return {'api': 'import_module_from_path', 'observed': pr['impl'], 'expected': pr['expected'], 'why': pr['bad']}
            return None
        if api == 'LNK':
            for pr in linkfile_cases(os.path.join(scratch, 'links'), 'r%d' % os.getpid()):
                if pr.get('bad'):
                    return {'api': 'modname_to_modpath through a development-mode link file', 'observed': pr['impl'],
                            'expected': pr['expected'], 'why': pr['bad']}
            return None
        if api == 'DSP':
            for pr in default_syspath_cases(scratch, 'r%d' % os.getpid()):
                if pr.get('bad'):
                    return {'api': 'modname_to_modpath / _syspath_modname_to_modpath with the default sys.path or exclude',
                            'observed': pr['impl'], 'expected': pr['expected'], 'why': pr['bad']}
            return None
        if api == 'Rmulti':
            ents = []
            for k, tr in enumerate(inp['trees']):
                gt.write_tree(os.path.join(scratch, 'e%d' % k), tr)
                ents.append(os.path.join(scratch, 'e%d' % k))
            name = inp['name']
            if _touches_namespace(ents, name) or _shadowed(ents, name):
                return None
            r = real_resolve(name, ents, 1, 0)
            exp = canon_expected(full_regular(ents, name), 1)
            if r != exp:
                return {'api': 'modname_to_modpath(%r, sys_path=%r)' % (name, ents), 'observed': r, 'expected_by_importlib': exp}
            return None
        if 'tree' not in inp:
            return None
        top = os.path.join(scratch, 't')
        gt.write_tree(os.path.join(top, 'root'), inp['tree'])
        os.symlink('root', os.path.join(top, 'link'))
        return eval_case(inp, top)
    finally:
        os.chdir(old)
        shutil.rmtree(scratch, ignore_errors=True)


def _shrink_tree(inp):
    if inp.get('api') == 'HANG':
        return inp
    if 'trees' in inp:
        trees = [dict(t) for t in inp['trees']]
        for k in range(len(trees)):
            items = sorted(trees[k]['files'])

            def still(keep, k=k):
                ts = list(trees)
                ts[k] = {'files': {f: trees[k]['files'][f] for f in keep}, 'dirs': []}
                return check_case(dict(inp, trees=ts)) is not None
            keep = shrink_list(items, still, max_steps=60)
            if still(keep):
                trees[k] = {'files': {f: trees[k]['files'][f] for f in keep}, 'dirs': []}
        return dict(inp, trees=trees)
    if 'tree' not in inp:
        return inp
    tree = inp['tree']
    items = sorted(tree['files'])

    def still(keep):
        t = {'files': {k: tree['files'][k] for k in keep}, 'dirs': tree['dirs']}
        return check_case(dict(inp, tree=t)) is not None
    keep = shrink_list(items, still, max_steps=150)
    t = {'files': {k: tree['files'][k] for k in keep}, 'dirs': tree['dirs']}
    dkeep = shrink_list(list(t['dirs']), lambda ds: check_case(dict(inp, tree={'files': t['files'], 'dirs': ds})) is not None, max_steps=60)
    return dict(inp, tree={'files': t['files'], 'dirs': dkeep})


def _search_shard(args):
    seed, shard, ntrees = args
    h = hashlib.sha256(('%d:C17search:%d' % (seed, shard)).encode()).digest()
    rng = random.Random(int.from_bytes(h[:8], 'big'))
    hits = []
    old = os.getcwd()
    scratch = tempfile.mkdtemp(prefix='xdocverif-')
    try:
        for k in range(ntrees):
            tree = gt.gen_tree(rng, max_depth=4, width=3, root_init=False)
            names = gt.candidate_names(tree, rng, limit=20)
            top = os.path.join(scratch, 't%d' % k)
            gt.write_tree(os.path.join(top, 'root'), tree)
            os.symlink('root', os.path.join(top, 'link'))
            sp = rng.choice(SPELLINGS)
            hit = None
            for name in names:
                inp = {'api': 'R', 'tree': tree, 'spelling': sp, 'name': name}
                if eval_case(inp, top):
                    hit = inp
                    break
            if hit is None:
                for rel in sorted(tree['files']) + gt.all_dirs(tree):
                    inp = {'api': 'S', 'tree': tree, 'spelling': sp, 'rel': rel}
                    if eval_case(inp, top):
                        hit = inp
                        break
            os.chdir(scratch)
            shutil.rmtree(top, ignore_errors=True)
            if hit is not None:
                hits.append(hit)
            if len(hits) >= 2:
                break
        # several entries
        if not hits:
            for k in range(ntrees // 4):
                trees = [gt.gen_tree(rng, max_depth=2, width=3) for _ in range(2)]
                names = sorted(set(gt.candidate_names(trees[0], rng, limit=10)) | set(gt.candidate_names(trees[1], rng, limit=10)))
                for name in names:
                    inp = {'api': 'Rmulti', 'trees': trees, 'name': name}
                    if check_case(inp):
                        hits.append(inp)
                        break
                if hits:
                    break
    finally:
        os.chdir(old)
        shutil.rmtree(scratch, ignore_errors=True)
    return hits


def search(ctx, corr, broken):
    found = []
    seen = set()
    # the eagerly recorded expectation failures become replay files as they are: shrink the first ones in place
    for e in corr.expect_failures[:5]:
        if str(e.get('why', '')).startswith('hang'):
            continue
        try:
            small = _shrink_tree(e['input'])
            if small is not e['input'] and check_case(small):
                e['input'].clear()
                e['input'].update(small)
        except Exception as ex:
            ctx.note('shrinking raised %r' % (ex,))
    cands = [e['input'] for e in corr.expect_failures] + [d['input'] for d in corr.disagreements if isinstance(d.get('input'), dict)]
    for inp in cands[:40]:
        try:
            f = check_case(inp)
        except Exception as ex:
            ctx.note('check_case raised %r' % (ex,))
            f = None
        if f:
            small = inp if f.get('hang') else _shrink_tree(inp)
            f2 = f if f.get('hang') else (check_case(small) or f)
            key = repr(sorted(small.get('tree', {}).get('files', {}))) + repr(small.get('trees')) + small.get('name', '') + small.get('rel', '') + str(small.get('api'))
            if key not in seen:
                seen.add(key)
                found.append(dict(f2, input=small))
        if len(found) >= 3:
            return found
    if not found:
        rng = ctx.sub_rng('search-imp')
        scratch = tempfile.mkdtemp(prefix='xdocverif-')
        try:
            for k in range(40):
                c = _import_case(scratch, 's%d_%d_%d' % (os.getpid(), ctx.seed, k), rng)
                problem, _ = run_import_case(c, scratch)
                if problem:
                    found.append(dict(problem, input={'api': 'IMP', 'case': c}))
                    break
        finally:
            shutil.rmtree(scratch, ignore_errors=True)
    if not found:
        res = par.pmap(_search_shard, [(ctx.seed, s, 40) for s in range(16)])
        for hits in res:
            for inp in hits:
                small = _shrink_tree(inp)
                f = check_case(small)
                if f:
                    found.append(dict(f, input=small))
                if len(found) >= 3:
                    return found
    return found


# ------------------------------------------------------------------ known finding K-C17-a: namespace packages
WITNESS_A = {'tree': {'files': {'ns/x.py': "X = 'ns/x.py'\n"}, 'dirs': ['ns']}, 'name': 'ns.x'}


def _namespace_witness():
    """the interpreter imports ns.x (ns has no __init__.py: PEP 420 namespace package), xdoctest finds nothing"""
    scratch = tempfile.mkdtemp(prefix='xdocverif-')
    try:
        root = os.path.join(scratch, 'root')
        gt.write_tree(root, WITNESS_A['tree'])
        code = 'import sys; sys.path.insert(0, %r); import ns.x; print(ns.x.__file__)' % root
        proc = subprocess.run([sys.executable, '-S', '-c', code], stdout=subprocess.PIPE, stderr=subprocess.PIPE,
                              env={'PYTHONDONTWRITEBYTECODE': '1', 'PATH': os.environ.get('PATH', '')})
        interp = proc.stdout.decode().strip()
        xd = real_resolve('ns.x', [root], 1, 0)
        return interp == os.path.join(root, 'ns', 'x.py') and xd == 'none'
    finally:
        shutil.rmtree(scratch, ignore_errors=True)


def classify(ctx, hit):
    return None


def replay_finding(ctx, finding):
    if finding.get('id') == KNOWN_A:
        return _namespace_witness()
    return False


def replay(ctx, failing):
    inp = failing['input']
    f = check_case(inp)
    desc = {k: v for k, v in inp.items() if k not in ('tree', 'trees')}
    if 'tree' in inp:
        print('tree: files=%s dirs=%s' % (sorted(inp['tree']['files']), inp['tree']['dirs']))
    for k, t in enumerate(inp.get('trees', [])):
        print('entry %d: files=%s dirs=%s' % (k, sorted(t['files']), t['dirs']))
    print('input: %r -> %s' % (desc, f or 'agrees with the independent oracle'))
    return f is not None

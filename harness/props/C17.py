"""C17 — Module name <-> path resolution agrees with Python's import system."""
import hashlib
import importlib
import itertools
import os
import random
import shutil
import subprocess
import sys
import tempfile

from .. import driver, par
from ..codec import enc, dec
from ..gen import importtrees as gt
from ..oracle import importsys as orc
from ..shrink import shrink_list

LEAN_TARGETS = ['XdocModel.Proofs.C17', 'XdocModel.Pins.Import']
MANIFEST = {
    'text': ("Partial. Proved for ALL file systems (two arbitrary predicates isFile/isDir on component lists), all search path "
             "entries and all dotted names of any depth: `resolve_eq_python` / `resolve_origin_eq_python` / `importable_iff_python` "
             "(the model of _syspath_modname_to_modpath + normalize_modpath finds exactly the package directory / .py file that "
             "importlib's FileFinder finds component by component, and nothing when it finds nothing; guard: no DIRECTORY is named "
             "__init__.py, excluded point witnessed), `roundtrip` (modpath_to_modname(modname_to_modpath(n)) = n; guards: the entry "
             "is not itself a package, last component is not __init__; both excluded points witnessed and run on the real code), "
             "`split_modpath_spec` + `split_modpath_unique` (d ++ rel = p, no __init__.py in d, one in every directory of rel, and "
             "this determines the answer), `isvalid_spec`, `isvalid_terminates`, `first_entry_wins`, `resolve_path_eq_python` "
             "(several entries; guard no shadowing, excluded point witnessed). Observed only (correspondence, not proved): "
             "import_module_from_path returns the module of that name and leaves sys.path unchanged; os.path string handling of the "
             "search path entry spellings. Namespace packages (PEP 420) are outside the regular-package specification: K-C17-a."),
    'note': ("Trusted: Lean kernel, allowed axioms only; hand-written model Import.lean of util_import.py (candidate list and loop "
             "conditions pinned from the source text); os.path (join/dirname/abspath/normpath/relpath/splitext on a JOINED string is "
             "modelled, the rest is the harness' translation of a path string to absolute components), importlib (oracle), the "
             "import machinery itself, symlinks (lexical view, as os.path.abspath) are CPython/OS and are parameters or oracles. Not "
             "modelled: extension-module suffixes (.so/.abi3.so), egg-links, __editable__ finders/.pth, zip archives, `exclude`, "
             "expanduser, namespace packages."),
    'technique': 'Lean 4 proof (induction over components, for all file systems) + differential correspondence on random trees on disk',
}
RULE = ('random package trees written to a scratch directory (nested packages, modules, directories without __init__.py in the '
        'middle of a chain, package and module of the same name, __main__.py, underscores, plain/.txt files, deep chains with one '
        'hole, entry that is itself a package) x all dotted names present in the tree + absent variants x spellings of the search '
        'path entry (absolute, trailing separator, relative, ./x, x/, symlink, ".", "", x/../x) x hide_init/hide_main: '
        'modname_to_modpath, modpath_to_modname, split_modpath, normalize_modpath vs the model on the directory listing; the '
        'FileFinder oracle, the round trip and the split specification are compared eagerly; plus import_module_from_path '
        '(__name__, __file__, marker, sys.path before/after, importable and failing modules), the string pipeline of '
        'modpath_to_modname on all short strings, several-entry search paths, the excluded points. non-trivial = a dotted name with '
        '>= 2 components or a name that resolves; distinct = distinct (tree, spelling, api, arguments)')
ASSUMPTIONS = [
    'os.path and importlib behave as on this interpreter (POSIX paths; case-sensitive file system)',
    'module name components are non-empty and contain no dot or separator (others are outside the model)',
    'the scratch directory has no __init__.py in any ancestor (checked: the listing sent to the model includes the ancestors)',
]

SPELLINGS = ['abs', 'abs/', 'rel', './rel', 'rel/', 'link', 'dot', 'empty', 'dotdot']
KNOWN_A = 'K-C17-a'


def ui():
    from xdoctest.utils import util_import
    return util_import


def spell(kind, top):
    """-> (search path entry as written, working directory)"""
    root = os.path.join(top, 'root')
    if kind == 'abs':
        return root, top
    if kind == 'abs/':
        return root + '/', top
    if kind == 'rel':
        return 'root', top
    if kind == './rel':
        return './root', top
    if kind == 'rel/':
        return 'root/', top
    if kind == 'link':
        return os.path.join(top, 'link'), top
    if kind == 'dot':
        return '.', root
    if kind == 'empty':
        return '', root
    if kind == 'dotdot':
        return os.path.join(top, 'root', '..', 'root'), top
    raise ValueError(kind)


# ------------------------------------------------------------------ the real code, canonical answers
def real_resolve(name, entries, hi, hm):
    try:
        r = ui().modname_to_modpath(name, hide_init=bool(hi), hide_main=bool(hm), sys_path=list(entries))
    except Exception as ex:
        return 'raise:' + type(ex).__name__
    return 'none' if r is None else 'some ' + os.path.abspath(r)


def _verr(ex):
    msg = str(ex)
    if 'does not exist' in msg:
        return 'err doesNotExist'
    if 'is not a module' in msg:
        return 'err notAModule'
    return 'raise:ValueError'


def real_split(path, check):
    try:
        d, rel = ui().split_modpath(path, check=bool(check))
    except ValueError as ex:
        return _verr(ex)
    except Exception as ex:
        return 'raise:' + type(ex).__name__
    return 'ok %s %s' % (d, rel)


def real_m2n(path, hi, hm, check):
    try:
        return 'ok ' + ui().modpath_to_modname(path, hide_init=bool(hi), hide_main=bool(hm), check=bool(check))
    except ValueError as ex:
        return _verr(ex)
    except Exception as ex:
        return 'raise:' + type(ex).__name__


def real_norm(path, hi, hm):
    try:
        return os.path.abspath(ui().normalize_modpath(path, hide_init=bool(hi), hide_main=bool(hm)))
    except Exception as ex:
        return 'raise:' + type(ex).__name__


def canon_found(found):
    if found is None:
        return 'none'
    kind, origin = found
    return '%s %s' % (kind, os.path.dirname(origin) if kind == 'pkg' else origin)


def canon_expected(found, hi):
    p = orc.expected_path(found, hi)
    return 'none' if p is None else 'some ' + p


def decode_answer(ans):
    """model answer -> the canonical text used for the real code"""
    toks = ans.split(' ')
    out = []
    for t in toks:
        if t == '-' or (t and t[0].isdigit()):
            try:
                out.append(dec(t))
                continue
            except Exception:
                pass
        out.append(t)
    return ' '.join(out)


def encl(paths):
    return ';'.join(enc(p) for p in paths) if paths else '~'


# ------------------------------------------------------------------ one tree: real code + oracles + model queries
class Acc(object):
    """plain, picklable accumulator of one shard"""

    def __init__(self):
        self.counts = {}
        self.tags = {}
        self.disagree = []
        self.expect = []
        self.samples = []
        self.nontriv = 0
        self.unknown = 0

    def count(self, k, n=1):
        self.counts[k] = self.counts.get(k, 0) + n

    def tag(self, k, n=1):
        self.tags[k] = self.tags.get(k, 0) + n


def _ident(rel):
    comps = rel.split('/')
    last = comps[-1]
    if last.endswith('.py'):
        comps = comps[:-1] + [last[:-3]]
    return all(c and '.' not in c for c in comps)


def run_tree(tree, top, rng, acc, quick):
    """writes the tree, runs the real code and the independent oracles; returns the model queries"""
    root = os.path.join(top, 'root')
    gt.write_tree(root, tree)
    os.symlink('root', os.path.join(top, 'link'))
    names = gt.candidate_names(tree, rng, limit=22 if quick else 60)
    spells = ['abs'] + rng.sample(SPELLINGS[1:], 3 if quick else len(SPELLINGS) - 1)
    root_init = os.path.exists(os.path.join(root, '__init__.py'))
    cases = []

    def case(q, real, meta):
        cases.append({'q': q, 'real': real, 'meta': meta})

    for sp in spells:
        entry, cwd = spell(sp, top)
        os.chdir(cwd)
        abs_entry = os.path.abspath(entry or '.')
        for name in names:
            found = orc.ff_resolve(entry, name)
            meta = {'api': 'R', 'spelling': sp, 'name': name}
            case('P:%s:%s' % (enc(abs_entry), enc(name)), canon_found(found), dict(meta, api='P'))
            ntv = ('.' in name) or found is not None
            combos = ((1, 0), (0, 0), (1, 1), (0, 1)) if (sp == 'abs' or not quick) else ((1, 0), (0, 0))
            for hi, hm in combos:
                r = real_resolve(name, [entry], hi, hm)
                case('R:%d%d:%s:%s' % (hi, hm, enc(abs_entry), enc(name)), r, dict(meta, hi=hi, hm=hm))
                acc.count('modname_to_modpath')
                if ntv:
                    acc.nontriv += 1
                if not hm:
                    exp = canon_expected(found, hi)
                    acc.count('oracle:FileFinder')
                    if r != exp and len(acc.expect) < 50:
                        acc.expect.append({'input': dict(meta, hi=hi, hm=0, tree=tree), 'expected': exp, 'impl': r,
                                           'why': 'modname_to_modpath differs from importlib FileFinder resolved part by part'})
            # tags (from the oracle and the tree)
            relp = name.replace('.', '/')
            if found is not None:
                acc.tag('found:' + found[0])
                if found[0] == 'pkg' and os.path.isfile(os.path.join(root, relp + '.py')):
                    acc.tag('package-beats-module-of-same-name')
            elif os.path.exists(os.path.join(root, relp)) or os.path.exists(os.path.join(root, relp + '.py')):
                acc.tag('none:on-disk-but-chain-broken-or-bare')
                full = orc.interpreter_resolve([entry], name)
                if full is not None:
                    acc.tag('namespace-only:interpreter-finds-%s (K-C17-a class)' % full[0])
            else:
                acc.tag('none:absent')
            # round trip (property sentence), guards as in theorem `roundtrip`
            r10 = real_resolve(name, [entry], 1, 0)
            if r10.startswith('some ') and not root_init and name.split('.')[-1] != '__init__':
                back = real_m2n(r10[5:], 1, 0, 1)
                acc.count('roundtrip')
                if back != 'ok ' + name:
                    acc.expect.append({'input': dict(meta, api='RT', tree=tree), 'expected': 'ok ' + name, 'impl': back,
                                       'why': 'modpath_to_modname(modname_to_modpath(name)) != name'})
            elif r10.startswith('some ') and root_init:
                acc.tag('roundtrip-excluded:entry-is-package')
        acc.tag('spelling:' + sp)

    # ---- path APIs
    rels = sorted(tree['files']) + gt.all_dirs(tree)
    extra = [r + 'x' for r in rng.sample(rels, min(3, len(rels)))] + ['', 'nope.py', 'nope/deep.py']
    if len(rels) > (24 if quick else 80):
        rels = rng.sample(rels, 24 if quick else 80)
    rels = rels + extra
    for sp in ['abs', rng.choice(SPELLINGS[1:])]:
        entry, cwd = spell(sp, top)
        os.chdir(cwd)
        for rel in rels:
            path = os.path.join(entry, rel) if rel else (entry or '.')
            ap = os.path.abspath(path)
            meta = {'spelling': sp, 'rel': rel}
            for check in (1, 0):
                rs = real_split(path, check)
                case('S:%d:%s' % (check, enc(ap)), rs, dict(meta, api='S', check=check))
                acc.count('split_modpath')
                if check:
                    acc.nontriv += 1
                    acc.tag('split:' + rs.split(' ')[0] + (':' + rs.split(' ')[1] if rs.startswith('err') else ''))
                    should_fail = (not os.path.exists(ap)) or (os.path.isdir(ap) and not os.path.exists(os.path.join(ap, '__init__.py')))
                    bad = None
                    if rs.startswith('ok '):
                        d, r2 = rs[3:].rsplit(' ', 1) if ' ' in rs[3:] else (rs[3:], '')
                        bad = 'accepted a path that does not exist / is a directory without __init__.py' if should_fail \
                            else orc.split_spec_violation(ap, d, r2)
                    elif not should_fail:
                        bad = 'rejected an existing module path'
                    acc.count('oracle:split-spec')
                    if bad:
                        acc.expect.append({'input': dict(meta, api='S', tree=tree), 'expected': 'split specification', 'impl': rs, 'why': bad})
            for hi, hm, check in ((1, 0, 1), (0, 0, 1), (1, 1, 1), (0, 1, 1), (1, 0, 0), (0, 1, 0)):
                rm = real_m2n(path, hi, hm, check)
                case('M:%d%d%d:%s' % (hi, hm, check, enc(ap)), rm, dict(meta, api='M', hi=hi, hm=hm, check=check))
                acc.count('modpath_to_modname')
                acc.nontriv += 1
            for hi, hm in ((1, 0), (0, 0), (1, 1), (0, 1)):
                case('N:%d%d:%s' % (hi, hm, enc(ap)), real_norm(path, hi, hm), dict(meta, api='N', hi=hi, hm=hm))
                acc.count('normalize_modpath')
            relto = os.path.join(entry or '.', 'x')
            for hi, hm in ((1, 0), (0, 1)):
                try:
                    rr = ui().modpath_to_modname(path, hide_init=bool(hi), hide_main=bool(hm), relativeto=relto)
                except Exception as ex:
                    rr = 'raise:' + type(ex).__name__
                case('L:%d%d:%s:%s' % (hi, hm, enc(ap), enc(os.path.abspath(relto))), rr, dict(meta, api='Lt', hi=hi, hm=hm))
                acc.count('modpath_to_modname:relativeto')
            # name -> importlib -> same file (by construction: the file is importable under that name)
            f = _m2n_importlib_violation(path)
            if f is not None:
                acc.count('oracle:name-resolves-back')
                if f:
                    acc.expect.append({'input': dict(meta, api='MB', tree=tree), 'expected': f['expected'], 'impl': f['impl'], 'why': f['why']})
    os.chdir(top)
    return cases


def _m2n_importlib_violation(path):
    """modpath_to_modname(path) must be a name under which importlib, searching split_modpath(path)[0],
    finds exactly this file. -> None (not applicable) | {} (holds) | failure dict"""
    ap = os.path.abspath(path)
    base = os.path.basename(ap)
    if os.path.isdir(ap):
        if not os.path.isfile(os.path.join(ap, '__init__.py')):
            return None
        want = ('pkg', os.path.join(ap, '__init__.py'))
        stem = base
    elif os.path.isfile(ap) and base.endswith('.py'):
        want = ('pkg', ap) if base == '__init__.py' else ('mod', ap)
        stem = base[:-3]
        if base != '__init__.py' and os.path.isfile(os.path.join(ap[:-3], '__init__.py')):
            return None     # shadowed by a package of the same name: not importable at all
    else:
        return None
    if '.' in stem or not stem:
        return None
    name = real_m2n(path, 1, 0, 1)
    sp = real_split(path, 1)
    if not (name.startswith('ok ') and sp.startswith('ok ')):
        return {'expected': 'a module name', 'impl': '%s / %s' % (name, sp), 'why': 'an importable file is rejected'}
    d = sp[3:].rsplit(' ', 1)[0]
    if any('.' in c for c in sp[3:].rsplit(' ', 1)[1].split('/')[:-1]):
        return None
    got = orc.ff_resolve(d, name[3:])
    if got != want:
        return {'expected': '%s via importlib from %s' % (want, d), 'impl': 'name %r resolves to %r' % (name[3:], got),
                'why': 'the name given by modpath_to_modname does not import this file from the directory given by split_modpath'}
    return {}


def _shard(args):
    seed, shard, ntrees, quick = args
    h = hashlib.sha256(('%d:C17:%d' % (seed, shard)).encode()).digest()
    rng = random.Random(int.from_bytes(h[:8], 'big'))
    acc = Acc()
    old = os.getcwd()
    scratch = tempfile.mkdtemp(prefix='xdocverif-')
    lines, pending, trees = [], [], []

    def flush():
        os.chdir(old)
        answers = driver.run_lines(lines, jobs=1)
        for tree, cases, ans in zip(trees, pending, answers):
            parts = ans.split('\t')
            if len(parts) != len(cases):
                acc.disagree.append(('protocol', {'tree': tree}, ans[:200], '%d cases' % len(cases)))
                continue
            for c, a in zip(cases, parts):
                m = decode_answer(a)
                api = c['meta']['api']
                if api == 'P':
                    acc.count('spec:pyResolve-vs-importlib')
                if m != c['real'] and len(acc.disagree) < 50:
                    acc.disagree.append(('spec-vs-importlib' if api == 'P' else 'model-vs-code:' + api,
                                         dict(c['meta'], tree=tree), m, c['real']))
        del lines[:], pending[:], trees[:]

    try:
        for k in range(ntrees):
            tree = gt.gen_tree(rng, max_depth=4 if quick else 6, width=3, root_init=(rng.random() < 0.12))
            top = os.path.join(scratch, 't%d' % k)
            os.makedirs(top)
            cases = run_tree(tree, top, rng, acc, quick)
            files, dirs = gt.listing(top)
            lines.append('\t'.join(['imp', encl(files), encl(dirs)] + [c['q'] for c in cases]))
            pending.append(cases)
            trees.append(tree)
            os.chdir(scratch)
            shutil.rmtree(top)
            if k == 0 and shard == 0:
                acc.samples.append({'tree_files': sorted(tree['files'])[:12], 'queries': [c['meta'] for c in cases[:3]]})
            if len(lines) >= 10:
                flush()
        flush()
    finally:
        os.chdir(old)
        shutil.rmtree(scratch, ignore_errors=True)
    return acc


# ------------------------------------------------------------------ import_module_from_path
def _import_case(scratch, uid, rng):
    """one generated package chain with a leaf of a given kind; returns the case description"""
    depth = rng.randint(0, 4)
    hole = rng.choice([None, None, None] + list(range(depth))) if depth else None
    comps = ['xv17%s_%d' % (uid, i) for i in range(depth)]
    kind = rng.choice(['ok', 'ok', 'ok', 'raises', 'syntax', 'missing-import', 'pkg', 'pkg-raises', 'main', 'init-file'])
    leaf = 'xv17%s_leaf' % uid
    files = {}
    prefix = ''
    for i, c in enumerate(comps):
        if i != hole:
            files[prefix + c + '/__init__.py'] = 'X = %r\n' % (prefix + c)
        prefix += c + '/'
    live = comps[hole + 1:] if hole is not None else comps       # packages above the leaf that count
    marker = 'marker-%s' % uid
    body = {'ok': 'X = %r\n' % marker, 'raises': 'X = %r\nraise ValueError("boom")\n' % marker,
            'syntax': 'X = = 1\n', 'missing-import': 'import xv17_does_not_exist_%s\n' % uid}
    if kind in body:
        rel = prefix + leaf + '.py'
        files[rel] = body[kind]
        name = '.'.join(live + [leaf])
        origin = rel
    elif kind in ('pkg', 'pkg-raises'):
        files[prefix + leaf + '/__init__.py'] = body['ok'] if kind == 'pkg' else body['raises']
        rel = prefix + leaf
        name = '.'.join(live + [leaf])
        origin = rel + '/__init__.py'
    elif kind == 'init-file':
        files[prefix + leaf + '/__init__.py'] = body['ok']
        rel = prefix + leaf + '/__init__.py'
        name = '.'.join(live + [leaf])
        origin = rel
    else:  # main
        files[prefix + leaf + '/__init__.py'] = 'Y = 1\n'
        files[prefix + leaf + '/__main__.py'] = body['ok']
        rel = prefix + leaf + '/__main__.py'
        name = '.'.join(live + [leaf, '__main__'])
        origin = rel
    fails = kind in ('raises', 'syntax', 'missing-import', 'pkg-raises')
    return {'files': files, 'rel': rel, 'name': name, 'origin': origin, 'fails': fails, 'kind': kind,
            'marker': marker, 'index': rng.choice([-1, -1, 0]), 'spelling': rng.choice(['abs', 'rel'])}


def run_import_case(c, scratch):
    """-> failure dict or None; also returns observations"""
    root = os.path.join(scratch, 'imp_' + c['marker'][7:])
    gt.write_tree(root, {'files': c['files'], 'dirs': []})
    old = os.getcwd()
    before_mods = set(sys.modules)
    before = list(sys.path)
    path_obj = sys.path
    problem = None
    try:
        os.chdir(scratch)
        path = os.path.join(root, c['rel']) if c['spelling'] == 'abs' else os.path.relpath(os.path.join(root, c['rel']), scratch)
        try:
            m = ui().import_module_from_path(path, index=c['index'])
            outcome = 'ok'
        except Exception as ex:
            m = None
            outcome = 'raise:' + type(ex).__name__
        if sys.path is not path_obj or list(sys.path) != before:
            problem = {'expected': 'sys.path unchanged', 'impl': 'sys.path differs: %r' % (
                [p for p in sys.path if p not in before] or 'order/length changed'), 'why': 'sys.path not restored (%s)' % outcome}
        elif c['fails']:
            if m is not None:
                problem = {'expected': 'an exception', 'impl': 'module %r' % getattr(m, '__name__', None), 'why': 'a failing module was returned'}
        elif m is None:
            problem = {'expected': 'module ' + c['name'], 'impl': outcome, 'why': 'an importable module could not be imported by path'}
        else:
            got = (m.__name__, os.path.abspath(m.__file__), getattr(m, 'X', None))
            want = (c['name'], os.path.join(root, c['origin']), c['marker'])
            if got != want:
                problem = {'expected': repr(want), 'impl': repr(got), 'why': 'import_module_from_path returned another module'}
    finally:
        os.chdir(old)
        sys.path[:] = before
        for k in set(sys.modules) - before_mods:
            del sys.modules[k]
        importlib.invalidate_caches()
        for k in list(sys.path_importer_cache):
            if 'xdocverif-' in k:
                del sys.path_importer_cache[k]
        shutil.rmtree(root, ignore_errors=True)
    return problem, outcome


def import_suite(ctx, corr, n):
    rng = ctx.sub_rng('import')
    scratch = tempfile.mkdtemp(prefix='xdocverif-')
    lines, metas = [], []
    try:
        for k in range(n):
            c = _import_case(scratch, '%d_%d_%d' % (os.getpid(), ctx.seed, k), rng)
            # the model's name for this path (listing taken before the import)
            root = os.path.join(scratch, 'imp_' + c['marker'][7:])
            gt.write_tree(root, {'files': c['files'], 'dirs': []})
            files, dirs = gt.listing(root)
            lines.append('\t'.join(['imp', encl(files), encl(dirs), 'M:101:%s' % enc(os.path.join(root, c['rel']))]))
            metas.append(c)
            shutil.rmtree(root)
            problem, outcome = run_import_case(c, scratch)
            corr.count('import_module_from_path')
            corr.tag('import:%s:%s' % (c['kind'], 'ok' if outcome == 'ok' else 'raises'))
            corr.nontriv(('imp', c['marker']))
            if problem:
                corr.expect_fail('import_module_from_path', {'api': 'IMP', 'case': c}, problem['expected'], problem['impl'], problem['why'])
        for c, a in zip(metas, driver.run_lines(lines)):
            corr.count('import:model-name')
            if decode_answer(a) != 'ok ' + c['name']:
                corr.disagree('model-vs-construction:import-name', {'api': 'IMP', 'case': c}, decode_answer(a), 'ok ' + c['name'])
    finally:
        shutil.rmtree(scratch, ignore_errors=True)


# ------------------------------------------------------------------ string pipeline of modpath_to_modname
def rel2name_suite(ctx, corr, maxlen):
    """modpath_to_modname('/zz9q/' + s, check=False, relativeto='/zz9q/x') exercises splitext -> cut at
    the first dot -> separators to dots on (the normal form of) an arbitrary string"""
    alphabet = ['a', '_', '.', '/', '\\']
    strs = []
    for n in range(1, maxlen + 1):
        strs.extend(''.join(t) for t in itertools.product(alphabet, repeat=n))
    strs += ['a.cpython-312-x86_64-linux-gnu.so', 'pkg/sub/mod.py', 'pkg.v2/mod.py', '.hidden', '..', 'a..py', 'a/.b.c', '__init__.py',
             'a/__init__.py', 'a/__main__.py', '__main__.py']
    real, lines = [], []
    for s in strs:
        full = '/zz9q/' + s
        ap = os.path.abspath(full)
        for hi, hm in ((1, 0), (0, 1)):
            try:
                r = ui().modpath_to_modname(full, hide_init=bool(hi), hide_main=bool(hm), check=False, relativeto='/zz9q/x')
            except Exception as ex:
                r = 'raise:' + type(ex).__name__
            real.append((s, hi, hm, r))
            lines.append('L:%d%d:%s:%s' % (hi, hm, enc(ap), enc('/zz9q/x')))
    chunk = 2000
    for i in range(0, len(lines), chunk):
        ans = driver.run_lines(['\t'.join(['imp', '~', enc('/')] + lines[i:i + chunk])])[0].split('\t')
        for (s, hi, hm, r), a in zip(real[i:i + chunk], ans):
            corr.count('modpath_to_modname:string-pipeline')
            if '.' in s or '/' in s:
                corr.nontriv(('L', s, hi, hm))
            m = dec(a)
            corr.tag('pipeline:' + ('dot-cut' if '.' in s.rsplit('/', 1)[-1][:-1].lstrip('.') or '.' in s.rsplit('/', 1)[0] else 'plain'))
            if m != r:
                corr.disagree('model-vs-code:L', {'api': 'L', 's': s, 'hi': hi, 'hm': hm}, m, r)


# ------------------------------------------------------------------ fixed families: excluded points, several entries
def fixed_suites(ctx, corr):
    scratch = tempfile.mkdtemp(prefix='xdocverif-')
    old = os.getcwd()
    try:
        # (1) a DIRECTORY named __init__.py (excluded point of NoInitDir): model == code, both != regular-package rule
        top = os.path.join(scratch, 'initdir')
        tree = {'files': {'w/m.py': 'X=1\n', 'w/k/__init__.py': '', 'w/k/z.py': ''}, 'dirs': ['w/__init__.py']}
        gt.write_tree(os.path.join(top, 'root'), tree)
        os.chdir(top)
        entry = os.path.join(top, 'root')
        files, dirs = gt.listing(top)
        qs, reals = [], []
        for name in ('w', 'w.m', 'w.k', 'w.k.z', 'w.__init__'):
            for hi in (1, 0):
                qs.append('R:%d0:%s:%s' % (hi, enc(entry), enc(name)))
                reals.append((name, real_resolve(name, [entry], hi, 0)))
        ans = driver.run_lines(['\t'.join(['imp', encl(files), encl(dirs)] + qs)])[0].split('\t')
        for (name, r), a in zip(reals, ans):
            corr.count('excluded-point:init-directory')
            if decode_answer(a) != r:
                corr.disagree('model-vs-code:R', {'api': 'R', 'name': name, 'tree': tree, 'spelling': 'abs'}, decode_answer(a), r)
            if name in ('w.m', 'w.k.z') and r.startswith('some ') and orc.ff_resolve(entry, name) is None:
                corr.tag('excluded-point:init-directory: code resolves %s, regular-package rule finds nothing' % name)
        # (2) several entries, shadowing
        top = os.path.join(scratch, 'multi')
        rng = ctx.sub_rng('multi')
        for k in range(12 if ctx.quick else 80):
            t = os.path.join(top, 'm%d' % k)
            ents, etrees = [], []
            for e in range(rng.randint(2, 3)):
                tr = gt.gen_tree(rng, max_depth=3, width=3)
                gt.write_tree(os.path.join(t, 'e%d' % e), tr)
                ents.append(os.path.join(t, 'e%d' % e))
                etrees.append(tr)
            names = set()
            for e in ents:
                for dp, dn, fn in os.walk(e):
                    relp = os.path.relpath(dp, e)
                    for x in dn + [f[:-3] for f in fn if f.endswith('.py')]:
                        names.add((relp + '/' + x if relp != '.' else x).replace('/', '.'))
            names = sorted(names)
            if not names:
                continue
            files, dirs = gt.listing(t)
            qs, reals = [], []
            for name in names:
                r = real_resolve(name, ents, 1, 0)
                qs.append('R:10:%s:%s' % ('|'.join(enc(e) for e in ents), enc(name)))
                reals.append((name, r))
                qs.append('Q:%s:%s' % ('|'.join(enc(e) for e in ents), enc(name)))
                reals.append((name, None))
            ans = driver.run_lines(['\t'.join(['imp', encl(files), encl(dirs)] + qs)])[0].split('\t')
            for i in range(0, len(ans), 2):
                name, r = reals[i]
                m, q = decode_answer(ans[i]), decode_answer(ans[i + 1])
                corr.count('several-entries')
                corr.nontriv(('multi', k, name))
                if m != r:
                    corr.disagree('model-vs-code:R', {'api': 'Rmulti', 'name': name, 'trees': etrees}, m, r)
                if not _touches_namespace(ents, name) and not _shadowed(ents, name):
                    corr.count('oracle:PathFinder-rule')
                    exp = canon_expected(full_regular(ents, name), 1)
                    if r != exp:
                        corr.expect_fail('eager-oracle:Rmulti', {'api': 'Rmulti', 'name': name, 'trees': etrees}, exp, r,
                                         'several entries: differs from the import system (first entry that knows the name)')
                full = orc.interpreter_resolve(ents, name)
                qk = 'none' if q == 'none' else q.split(' ')[0]
                fk = 'none' if full is None or full[0] == 'ns' else full[0]
                if fk != qk and not (full and full[0] == 'ns'):
                    # the spec for several entries must be PathFinder's regular rule (namespace portions aside)
                    if not _touches_namespace(ents, name):
                        corr.disagree('spec-vs-importlib', {'api': 'Q', 'name': name, 'entries': ents}, q, repr(full))
                if (r == 'none') != (qk == 'none'):
                    corr.tag('several-entries: shadowing, code and interpreter differ (observation)')
                else:
                    corr.tag('several-entries: agree')
            shutil.rmtree(t, ignore_errors=True)
    finally:
        os.chdir(old)
        shutil.rmtree(scratch, ignore_errors=True)


def full_regular(entries, name):
    f = orc.interpreter_resolve(entries, name)
    return None if f is None or f[0] == 'ns' else f


def _shadowed(entries, name):
    """an entry that does not resolve the whole name knows its top-level component (theorem guard noShadow)"""
    top = name.split('.')[0]
    for e in entries:
        if orc.ff_resolve(e, name) is not None:
            return False
        if orc.ff_resolve(e, top) is not None:
            return True
    return False


def _touches_namespace(entries, name):
    """some prefix of the name is a bare directory in some entry (then namespace portions play a role)"""
    parts = name.split('.')
    for e in entries:
        for i in range(1, len(parts) + 1):
            d = os.path.join(e, *parts[:i])
            if os.path.isdir(d) and not os.path.isfile(os.path.join(d, '__init__.py')):
                return True
    return False


# ------------------------------------------------------------------ correspondence
def correspondence(ctx, corr):
    nshards = 16
    per = 30 if ctx.quick else 300
    res = par.pmap(_shard, [(ctx.seed, s, per, ctx.quick) for s in range(nshards)])
    for acc in res:
        for k, v in acc.counts.items():
            corr.count(k, v)
        for k, v in acc.tags.items():
            corr.tag(k, v)
        corr.nontrivial_extra += acc.nontriv
        corr.unknown += acc.unknown
        for s in acc.samples:
            corr.sample(s)
        for suite, inp, m, r in acc.disagree:
            corr.disagree(suite, inp, m, r)
        for e in acc.expect:
            corr.expect_fail('eager-oracle:' + e['input']['api'], e['input'], e['expected'], e['impl'], e['why'])
    import_suite(ctx, corr, 60 if ctx.quick else 400)
    rel2name_suite(ctx, corr, 5 if ctx.quick else 6)
    fixed_suites(ctx, corr)
    corr.sample({'op': 'imp', 'note': 'one line per tree: listing (absolute files, dirs, ancestors) + queries R/P/S/M/N'})


# ------------------------------------------------------------------ independent check of one recorded case
def eval_case(inp, top):
    """the PROPERTY on the real code for one recorded input, independent oracles only; the tree is
    already written below ``top``. -> failure dict or None"""
    api = inp.get('api')
    root = os.path.join(top, 'root')
    entry, cwd = spell(inp.get('spelling', 'abs'), top)
    os.chdir(cwd)
    root_init = os.path.exists(os.path.join(root, '__init__.py'))
    if api in ('R', 'P', 'RT'):
        name = inp['name']
        found = orc.ff_resolve(entry, name)
        for hi in ((inp['hi'],) if 'hi' in inp and api == 'R' else (1, 0)):
            r = real_resolve(name, [entry], hi, 0)
            exp = canon_expected(found, hi)
            if r != exp:
                return {'api': 'modname_to_modpath(%r, hide_init=%s, sys_path=[%r])' % (name, bool(hi), entry),
                        'observed': r, 'expected_by_importlib': exp}
        r10 = real_resolve(name, [entry], 1, 0)
        if r10.startswith('some ') and not root_init and name.split('.')[-1] != '__init__':
            back = real_m2n(r10[5:], 1, 0, 1)
            if back != 'ok ' + name:
                return {'api': 'modpath_to_modname(modname_to_modpath(%r, sys_path=[%r]))' % (name, entry),
                        'observed': back, 'expected': 'ok ' + name}
        return None
    rel = inp.get('rel', '')
    path = os.path.join(entry, rel) if rel else (entry or '.')
    ap = os.path.abspath(path)
    rs = real_split(path, 1)
    should_fail = (not os.path.exists(ap)) or (os.path.isdir(ap) and not os.path.exists(os.path.join(ap, '__init__.py')))
    bad = None
    if rs.startswith('ok '):
        d, r2 = rs[3:].rsplit(' ', 1) if ' ' in rs[3:] else (rs[3:], '')
        bad = 'accepted a path that is not a module' if should_fail else orc.split_spec_violation(ap, d, r2)
    elif not should_fail:
        bad = 'rejected an existing module path'
    if bad:
        return {'api': 'split_modpath(%r)' % path, 'observed': rs, 'expected': 'split specification', 'why': bad}
    f = _m2n_importlib_violation(path)
    if f:
        return dict(f, api='modpath_to_modname(%r)' % path)
    return None


def check_case(inp):
    """rebuilds the tree of a recorded input in a fresh scratch directory and evaluates the PROPERTY on
    the real code with the independent oracles only. -> failure dict or None"""
    api = inp.get('api')
    if api == 'L':
        return None     # string pipeline: no oracle independent of the model (trees cover it through MB)
    scratch = tempfile.mkdtemp(prefix='xdocverif-')
    old = os.getcwd()
    try:
        if api == 'IMP':
            problem, outcome = run_import_case(inp['case'], scratch)
            return problem
        if api == 'Rmulti':
            ents = []
            for k, tr in enumerate(inp['trees']):
                gt.write_tree(os.path.join(scratch, 'e%d' % k), tr)
                ents.append(os.path.join(scratch, 'e%d' % k))
            name = inp['name']
            if _touches_namespace(ents, name) or _shadowed(ents, name):
                return None
            r = real_resolve(name, ents, 1, 0)
            exp = canon_expected(full_regular(ents, name), 1)
            if r != exp:
                return {'api': 'modname_to_modpath(%r, sys_path=%r)' % (name, ents), 'observed': r, 'expected_by_importlib': exp}
            return None
        if 'tree' not in inp:
            return None
        top = os.path.join(scratch, 't')
        gt.write_tree(os.path.join(top, 'root'), inp['tree'])
        os.symlink('root', os.path.join(top, 'link'))
        return eval_case(inp, top)
    finally:
        os.chdir(old)
        shutil.rmtree(scratch, ignore_errors=True)


def _shrink_tree(inp):
    if 'trees' in inp:
        trees = [dict(t) for t in inp['trees']]
        for k in range(len(trees)):
            items = sorted(trees[k]['files'])

            def still(keep, k=k):
                ts = list(trees)
                ts[k] = {'files': {f: trees[k]['files'][f] for f in keep}, 'dirs': []}
                return check_case(dict(inp, trees=ts)) is not None
            keep = shrink_list(items, still, max_steps=60)
            if still(keep):
                trees[k] = {'files': {f: trees[k]['files'][f] for f in keep}, 'dirs': []}
        return dict(inp, trees=trees)
    if 'tree' not in inp:
        return inp
    tree = inp['tree']
    items = sorted(tree['files'])

    def still(keep):
        t = {'files': {k: tree['files'][k] for k in keep}, 'dirs': tree['dirs']}
        return check_case(dict(inp, tree=t)) is not None
    keep = shrink_list(items, still, max_steps=150)
    t = {'files': {k: tree['files'][k] for k in keep}, 'dirs': tree['dirs']}
    dkeep = shrink_list(list(t['dirs']), lambda ds: check_case(dict(inp, tree={'files': t['files'], 'dirs': ds})) is not None, max_steps=60)
    return dict(inp, tree={'files': t['files'], 'dirs': dkeep})


def _search_shard(args):
    seed, shard, ntrees = args
    h = hashlib.sha256(('%d:C17search:%d' % (seed, shard)).encode()).digest()
    rng = random.Random(int.from_bytes(h[:8], 'big'))
    hits = []
    old = os.getcwd()
    scratch = tempfile.mkdtemp(prefix='xdocverif-')
    try:
        for k in range(ntrees):
            tree = gt.gen_tree(rng, max_depth=4, width=3, root_init=False)
            names = gt.candidate_names(tree, rng, limit=20)
            top = os.path.join(scratch, 't%d' % k)
            gt.write_tree(os.path.join(top, 'root'), tree)
            os.symlink('root', os.path.join(top, 'link'))
            sp = rng.choice(SPELLINGS)
            hit = None
            for name in names:
                inp = {'api': 'R', 'tree': tree, 'spelling': sp, 'name': name}
                if eval_case(inp, top):
                    hit = inp
                    break
            if hit is None:
                for rel in sorted(tree['files']) + gt.all_dirs(tree):
                    inp = {'api': 'S', 'tree': tree, 'spelling': sp, 'rel': rel}
                    if eval_case(inp, top):
                        hit = inp
                        break
            os.chdir(scratch)
            shutil.rmtree(top, ignore_errors=True)
            if hit is not None:
                hits.append(hit)
            if len(hits) >= 2:
                break
        # several entries
        if not hits:
            for k in range(ntrees // 4):
                trees = [gt.gen_tree(rng, max_depth=2, width=3) for _ in range(2)]
                names = sorted(set(gt.candidate_names(trees[0], rng, limit=10)) | set(gt.candidate_names(trees[1], rng, limit=10)))
                for name in names:
                    inp = {'api': 'Rmulti', 'trees': trees, 'name': name}
                    if check_case(inp):
                        hits.append(inp)
                        break
                if hits:
                    break
    finally:
        os.chdir(old)
        shutil.rmtree(scratch, ignore_errors=True)
    return hits


def search(ctx, corr, broken):
    found = []
    seen = set()
    # the eagerly recorded expectation failures become replay files as they are: shrink the first ones in place
    for e in corr.expect_failures[:5]:
        try:
            small = _shrink_tree(e['input'])
            if small is not e['input'] and check_case(small):
                e['input'].clear()
                e['input'].update(small)
        except Exception as ex:
            ctx.note('shrinking raised %r' % (ex,))
    cands = [e['input'] for e in corr.expect_failures] + [d['input'] for d in corr.disagreements if isinstance(d.get('input'), dict)]
    for inp in cands[:40]:
        try:
            f = check_case(inp)
        except Exception as ex:
            ctx.note('check_case raised %r' % (ex,))
            f = None
        if f:
            small = _shrink_tree(inp)
            f2 = check_case(small) or f
            key = repr(sorted(small.get('tree', {}).get('files', {}))) + repr(small.get('trees')) + small.get('name', '') + small.get('rel', '') + str(small.get('api'))
            if key not in seen:
                seen.add(key)
                found.append(dict(f2, input=small))
        if len(found) >= 3:
            return found
    if not found:
        rng = ctx.sub_rng('search-imp')
        scratch = tempfile.mkdtemp(prefix='xdocverif-')
        try:
            for k in range(40):
                c = _import_case(scratch, 's%d_%d_%d' % (os.getpid(), ctx.seed, k), rng)
                problem, _ = run_import_case(c, scratch)
                if problem:
                    found.append(dict(problem, input={'api': 'IMP', 'case': c}))
                    break
        finally:
            shutil.rmtree(scratch, ignore_errors=True)
    if not found:
        res = par.pmap(_search_shard, [(ctx.seed, s, 40) for s in range(16)])
        for hits in res:
            for inp in hits:
                small = _shrink_tree(inp)
                f = check_case(small)
                if f:
                    found.append(dict(f, input=small))
                if len(found) >= 3:
                    return found
    return found


# ------------------------------------------------------------------ known finding K-C17-a: namespace packages
WITNESS_A = {'tree': {'files': {'ns/x.py': "X = 'ns/x.py'\n"}, 'dirs': ['ns']}, 'name': 'ns.x'}


def _namespace_witness():
    """the interpreter imports ns.x (ns has no __init__.py: PEP 420 namespace package), xdoctest finds nothing"""
    scratch = tempfile.mkdtemp(prefix='xdocverif-')
    try:
        root = os.path.join(scratch, 'root')
        gt.write_tree(root, WITNESS_A['tree'])
        code = 'import sys; sys.path.insert(0, %r); import ns.x; print(ns.x.__file__)' % root
        proc = subprocess.run([sys.executable, '-S', '-c', code], stdout=subprocess.PIPE, stderr=subprocess.PIPE,
                              env={'PYTHONDONTWRITEBYTECODE': '1', 'PATH': os.environ.get('PATH', '')})
        interp = proc.stdout.decode().strip()
        xd = real_resolve('ns.x', [root], 1, 0)
        return interp == os.path.join(root, 'ns', 'x.py') and xd == 'none'
    finally:
        shutil.rmtree(scratch, ignore_errors=True)


def classify(ctx, hit):
    return None


def replay_finding(ctx, finding):
    if finding.get('id') == KNOWN_A:
        return _namespace_witness()
    return False


def replay(ctx, failing):
    inp = failing['input']
    f = check_case(inp)
    desc = {k: v for k, v in inp.items() if k not in ('tree', 'trees')}
    if 'tree' in inp:
        print('tree: files=%s dirs=%s' % (sorted(inp['tree']['files']), inp['tree']['dirs']))
    for k, t in enumerate(inp.get('trees', [])):
        print('entry %d: files=%s dirs=%s' % (k, sorted(t['files']), t['dirs']))
    print('input: %r -> %s' % (desc, f or 'agrees with the independent oracle'))
    return f is not None

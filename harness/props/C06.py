"""C06 — Ellipsis is a true wildcard."""
import itertools
import random

from .. import driver, par
from ..codec import enc
from ..corr import tables
from ..shrink import shrink_strings

LEAN_TARGETS = ['XdocModel.Proofs.C06', 'XdocModel.Pins.Ellipsis']
MANIFEST = {
    'text': ("Full: `ellipsis_iff_spec` proves for ALL strings that the model of checker._ellipsis_match accepts exactly the "
             "decompositions the property sentence describes (pieces in order, first/last anchored, no overlap, anything for "
             "each '...' and the whitespace around it); `ellipsis_no_dots`/`checkMatch_ellipsis_off` give plain equality without "
             "'...' or with ELLIPSIS off. The model is tied to the code by exhaustive comparison on all pairs of strings of length "
             "<=4/5 over {a,b,space,newline,.}, random derived pairs, exotic whitespace, and the full Unicode table of \\s."),
    'note': ("Trusted: Lean kernel (+leanchecker in thorough), axioms propext/Quot.sound/Classical.choice only; hand-written model of "
             "_ellipsis_match and of re.split(r'\\s*\\.\\.\\.\\s*') (its text is pinned from the source); correspondence harness. "
             "Inputs with lone surrogates are outside the model."),
    'technique': 'Lean 4 proof (induction; greedy-leftmost completeness lemma) + exhaustive/random differential correspondence',
}
RULE = ('model op `ellipsis`/`check_match` vs checker._ellipsis_match/_check_match: ALL pairs of strings over '
        "{a,b,' ','\\n','.'} up to length 4 (quick) / 5 (thorough), random longer pairs where want is derived from got "
        "(substrings replaced by '...', whitespace inserted, pieces duplicated), exotic-whitespace stream, and the "
        "Unicode table of \\s on every scalar value; a case is non-trivial when want contains '...'; distinct = distinct (got, want)")
ASSUMPTIONS = [
    "re.split/str.find/startswith/endswith behave as modelled (validated by this run's correspondence)",
    'strings containing lone surrogates are outside the model (Lean Char) and are not generated',
]

ALPHABET = ['a', 'b', ' ', '\n', '.']


def all_strings(maxlen):
    out = []
    for n in range(maxlen + 1):
        for t in itertools.product(ALPHABET, repeat=n):
            out.append(''.join(t))
    return out


# ------------------------------------------------------------------ independent oracle
def oracle_split(want):
    pieces = []
    cur = []
    i = 0
    n = len(want)
    while i < n:
        j = i
        while j < n and want[j].isspace():
            j += 1
        if want.startswith('...', j):
            pieces.append(''.join(cur))
            cur = []
            j += 3
            while j < n and want[j].isspace():
                j += 1
            i = j
        else:
            cur.append(want[i])
            i += 1
    pieces.append(''.join(cur))
    return pieces


def oracle_match(got, want):
    """written from the property sentence; tries EVERY placement of the middle pieces"""
    if '...' not in want:
        return got == want
    ps = oracle_split(want)
    first, mids, last = ps[0], ps[1:-1], ps[-1]
    if not (got[:len(first)] == first and len(first) + len(last) <= len(got)
            and got[len(got) - len(last):] == last):
        return False
    mid = got[len(first):len(got) - len(last)]
    memo = {}

    def place(k, pos):
        if k == len(mids):
            return True
        key = (k, pos)
        if key in memo:
            return memo[key]
        w = mids[k]
        res = False
        for p in range(pos, len(mid) - len(w) + 1):
            if mid[p:p + len(w)] == w and place(k + 1, p + len(w)):
                res = True
                break
        memo[key] = res
        return res
    return place(0, 0)


def impl_ellipsis(got, want):
    from xdoctest import checker
    try:
        return bool(checker._ellipsis_match(got, want))
    except Exception as ex:  # the model never raises
        return 'raise:' + type(ex).__name__


def impl_check_match(got, want, ellipsis):
    from xdoctest import checker
    try:
        return bool(checker._check_match(got, want, {'ELLIPSIS': ellipsis}))
    except Exception as ex:
        return 'raise:' + type(ex).__name__


# ------------------------------------------------------------------ correspondence
def _compare_pairs(pairs):
    """returns (n, nontrivial keys, tags, disagreements, sample)"""
    lines = ['ellipsis\t%s\t%s' % (enc(g), enc(w)) for g, w in pairs]
    model = driver.run_lines(lines, jobs=1)
    dis = []
    tags = {}
    nontriv = set()
    for (g, w), m in zip(pairs, model):
        r = impl_ellipsis(g, w)
        mv = (m == '1')
        if '...' in w:
            nontriv.add(hash((g, w)))
            t = 'dots:match' if mv else 'dots:nomatch'
        else:
            t = 'nodots:eq' if mv else 'nodots:ne'
        tags[t] = tags.get(t, 0) + 1
        if r != mv:
            dis.append(((g, w), mv, r))
    return len(pairs), nontriv, tags, dis


def _shard_exhaustive(args):
    maxlen, shard, nshards = args
    strs = all_strings(maxlen)
    pairs = [(g, w) for i, g in enumerate(strs) if i % nshards == shard for w in strs]
    # bound memory: process in blocks
    n = 0
    nontriv = set()
    tags = {}
    dis = []
    B = 200000
    for i in range(0, len(pairs), B):
        a, b, c, d = _compare_pairs(pairs[i:i + B])
        n += a
        nontriv |= b
        for k, v in c.items():
            tags[k] = tags.get(k, 0) + v
        dis.extend(d[:50])
    return n, len(nontriv), tags, dis[:50]


def gen_derived(rng, exotic=False):
    """a got and a want derived from it"""
    letters = 'ab. \n' if not exotic else 'ab. \n\t\r\x0b\x0c\x1c\x85\xa0  　'
    n = rng.randint(0, 14)
    nops = rng.randint(0, 3)
    long = rng.random() < 0.12
    if long:
        # long texts with many wildcards (sizes no hand-written example reaches)
        n = rng.randint(15, 90)
        nops = rng.randint(4, 32)
    got = ''.join(rng.choice(letters) for _ in range(n))
    want = got
    for _ in range(nops):
        op = rng.randint(0, 5)
        if long and rng.random() < 0.7:
            op = 0
        if op <= 1 and want:
            i = rng.randint(0, len(want))
            j = min(len(want), i + rng.randint(0, 4))
            want = want[:i] + '...' + want[j:]
        elif op == 2:
            i = rng.randint(0, len(want))
            want = want[:i] + rng.choice([' ', '\n', '  ', ' \n'] if not exotic else ['\t', '\x0c', '\xa0', ' ', ' ']) + want[i:]
        elif op == 3 and want:
            i = rng.randint(0, len(want) - 1)
            want = want[:i] + want[i + 1:]
        elif op == 4 and want:
            i = rng.randint(0, len(want))
            j = min(len(want), i + rng.randint(1, 3))
            want = want[:j] + want[i:j] + want[j:]
        else:
            i = rng.randint(0, len(want))
            want = want[:i] + rng.choice(letters) + want[i:]
    if rng.random() < 0.15:
        got, want = want, got
    return got, want


def _shard_random(args):
    seed, shard, count, exotic = args
    rng = random.Random('%d:%d:%s' % (seed, shard, exotic))
    pairs = [gen_derived(rng, exotic) for _ in range(count)]
    n, nontriv, tags, dis = _compare_pairs(pairs)
    return n, nontriv, tags, dis[:50], pairs[:3]



MODULE_CASES = [
    # ELLIPSIS switched off by a block directive of the FIRST doctest must not reach the second, and vice versa
    (['>>> # xdoctest: -ELLIPSIS', '>>> print(1)', '1'], ['>>> print("a-anything-b")', 'a...b'], [], 0, None),
    (['>>> # xdoctest: +ELLIPSIS', '>>> print(1)', '1'], ['>>> print("a-anything-b")', 'a...b'], ['second'], 0, {'ELLIPSIS': False}),
    (['>>> print("a-x-b")  # xdoctest: -ELLIPSIS', 'a-x-b'], ['>>> print("a-anything-b")', 'a...b'], [], 0, None),
]


def correspondence(ctx, corr):
    from . import _runloop_common as _common
    _common.module_level_cases(ctx, corr, 'module-level', MODULE_CASES)
    tables.check(corr, {'isspace'})
    maxlen = 4 if ctx.quick else 5
    nshards = 16 if ctx.quick else 64
    res = par.pmap(_shard_exhaustive, [(maxlen, s, nshards) for s in range(nshards)])
    total_nt = 0
    for n, nt, tags, dis in res:
        corr.count('ellipsis:exhaustive<=%d' % maxlen, n)
        total_nt += nt
        for k, v in tags.items():
            corr.tag(k, v)
        for (g, w), m, r in dis:
            corr.disagree('ellipsis', {'got': g, 'want': w}, m, r)
    # distinct non-trivial of the exhaustive part: measured per shard (shards are disjoint)
    corr.nontrivial_extra += total_nt
    corr.exhaustive = True
    corr.sample({'op': 'ellipsis', 'got': 'a b', 'want': 'a...', 'note': 'one of the exhaustive pairs'})
    per = 6000 if ctx.quick else 60000
    for exotic in (False, True):
        res = par.pmap(_shard_random, [(ctx.seed, s, per, exotic) for s in range(16)])
        for n, nt, tags, dis, sm in res:
            corr.count('ellipsis:random%s' % (':exotic' if exotic else ''), n)
            corr.nontrivial |= set(('r', exotic, x) for x in nt)
            for k, v in tags.items():
                corr.tag(('exotic:' if exotic else 'random:') + k, v)
            for (g, w), m, r in dis:
                corr.disagree('ellipsis', {'got': g, 'want': w}, m, r)
            for g, w in sm[:1]:
                corr.sample({'op': 'ellipsis', 'got': g, 'want': w})
    # the same pairs on ONE RuntimeState object whose ELLIPSIS (and other) flags change in place between calls:
    # with ELLIPSIS switched off again '...' must lose its meaning again (no verdict may be remembered)
    from . import C05 as _c05
    _c05.stateful_reuse(ctx, corr)
    # multi-statement doctests whose ELLIPSIS (and other) flags come from default options, block directives and inline directives on
    # statements of several shapes: '...' is a wildcard exactly in the statements where the flag is on
    _c05.e2e_multi(ctx, corr, dir_names=['ELLIPSIS'])
    # the part-level check (DoctestPart.check: trailing portions of the output since the previous want, value repr) with
    # wants that start with / contain '...' under ELLIPSIS on and off: with the flag off '...' is ordinary text there too
    from . import C02 as _c02
    _c02.part_check_suite(ctx, corr, quick_n=1200, full_n=12000)
    # _check_match with the flag on and off
    rng = ctx.sub_rng('check_match')
    pairs = [gen_derived(rng) for _ in range(4000)]
    for ell in (False, True):
        lines = ['check_match\t%s\t%s\t%s' % ('10000' if ell else '00000', enc(g), enc(w)) for g, w in pairs]
        model = driver.run_lines(lines)
        for (g, w), m in zip(pairs, model):
            r = impl_check_match(g, w, ell)
            corr.count('check_match')
            if '...' in w:
                corr.nontriv(('cm', ell, g, w))
            if r != (m == '1'):
                corr.disagree('check_match', {'got': g, 'want': w, 'ELLIPSIS': ell}, m == '1', r)


# ------------------------------------------------------------------ failing-input search
def _fails(got, want):
    """property oracle on the REAL code: returns a description or None"""
    r = impl_ellipsis(got, want)
    o = oracle_match(got, want)
    if r != o:
        return {'observed': r, 'expected_by_spec': o, 'api': 'checker._ellipsis_match(got, want)'}
    r0 = impl_check_match(got, want, False)
    if r0 != (got == want):
        return {'observed': r0, 'expected_by_spec': got == want, 'api': "checker._check_match(got, want, {'ELLIPSIS': False})"}
    r1 = impl_check_match(got, want, True)
    if r1 != (got == want or o):
        return {'observed': r1, 'expected_by_spec': (got == want or o), 'api': "checker._check_match(got, want, {'ELLIPSIS': True})"}
    return None


def _seq_fails_fresh(seq, repo=None):
    """the pairs of `seq` checked one after the other in a FRESH interpreter (nothing cached, nothing memoised): the verdict of the
    property oracle for the LAST pair (a description, or None when it agrees with the specification)"""
    import json
    import os
    import subprocess
    import sys
    from .. import paths
    code = ('import sys, json\nsys.dont_write_bytecode = True\nsys.path.insert(0, %r)\nfrom harness.props import C06\n'
            'seq = json.loads(sys.stdin.read())\nr = None\nfor g, w in seq:\n    r = C06._fails(g, w)\nprint(json.dumps(r))\n') % paths.VERIF
    env = dict(os.environ)
    env['PYTHONPATH'] = os.path.join(repo or paths.repo_root(), 'src')
    p = subprocess.run([sys.executable, '-c', code], input=json.dumps(seq).encode(), stdout=subprocess.PIPE, stderr=subprocess.PIPE,
                       env=env, timeout=120)
    try:
        return json.loads(p.stdout.decode().strip().splitlines()[-1])
    except Exception:
        return {'error': p.stderr.decode()[-300:]}


def _stateful_sequence(g, w, earlier):
    """a pair that only fails after other checks ran in the same process: find a short history (fresh interpreter) that makes it fail"""
    pieces = oracle_split(w) if '...' in w else [w]
    fills = [''.join(pieces), 'z'.join(pieces), ' '.join(pieces), w]
    cands = [[(x, w)] for x in fills] + [[(x, w)] for x in earlier[-6:]] + [[(x, w), (y, w)] for x in fills[:2] for y in fills[:2]]
    for pre in cands[:16]:
        seq = [list(p) for p in pre] + [[g, w]]
        f = _seq_fails_fresh(seq)
        if f and 'error' not in f:
            return seq, f
    return None, None


def search(ctx, corr, broken):
    from . import C05 as _c05
    from . import C02 as _c02
    found = _c05.stateful_hits(corr) + _c05.e2e_multi_hits(corr)
    for d in corr.disagreements:
        if d['suite'] != 'part_check' or len(found) >= 5:
            continue
        inp = d['input']
        try:
            exp = _c02._spec_part_check(inp)
            if exp is None:
                continue
            real = _c02._real_part_check(inp)
        except Exception:
            continue
        if real != exp:
            found.append({'kind': 'part_check', 'suite': 'part_check', 'input': inp, 'expected': exp, 'impl': real,
                          'why': 'DoctestPart.check says %s; by the property (with the ELLIPSIS flag as given, some trailing portion of the output '
                                 'or the value repr must match) it is %s' % (real, exp)})
    cands = []
    for d in corr.disagreements:
        i = d['input']
        if 'got' in i:
            cands.append((i['got'], i['want']))
    rng = ctx.sub_rng('search')
    strs = all_strings(3)
    cands.extend((g, w) for g in strs for w in strs)
    cands.extend(gen_derived(rng, exotic=(k % 2 == 1)) for k in range(60000))
    seen = set()
    by_want = {}
    for g, w in cands:
        if (g, w) in seen:
            continue
        seen.add((g, w))
        f = _fails(g, w)
        by_want.setdefault(w, []).append(g)
        if f:
            (g2, w2) = shrink_strings((g, w), lambda p: _fails(p[0], p[1]) is not None)
            f2 = _fails(g2, w2)
            alone = _seq_fails_fresh([[g2, w2]])
            if alone is None:
                # the verdict of this pair depends on what was checked before it in the same process: record a history that
                # reproduces it from a fresh start (the replay runs in a fresh process)
                seq, fs = _stateful_sequence(g2, w2, by_want.get(w2, []) + by_want.get(w, []))
                if seq is None and (g2, w2) != (g, w):
                    seq, fs = _stateful_sequence(g, w, by_want.get(w, []))
                if seq is not None:
                    found.append({'kind': 'sequence', 'input': {'sequence': seq}, **fs,
                                  'why': 'the verdict of the LAST pair depends on the pairs checked before it in the same process'})
                    if len(found) >= 3:
                        break
                    continue
            found.append({'input': {'got': g2, 'want': w2}, **f2})
            if len(found) >= 3:
                break
    return found


def classify(ctx, hit):
    return None


def replay_finding(ctx, finding):
    return False


def replay(ctx, failing):
    if 'module_source' in failing.get('input', {}):
        from . import _runloop_common as _common
        return _common.replay_module_level(ctx, failing, 'module-level', MODULE_CASES)
    if failing.get('kind') == 'part_check':
        from . import C02 as _c02
        real = _c02._real_part_check(failing['input'])
        print('DoctestPart.check(%r) -> %s, expected %s' % (failing['input'], real, failing['expected']))
        return real != failing['expected']
    if failing.get('kind') == 'stateful':
        from . import C05 as _c05
        return _c05.replay_stateful(failing)
    if failing.get('kind') == 'e2e_multi':
        from . import C05 as _c05
        return _c05.replay_e2e_multi(failing)
    i = failing['input']
    if 'sequence' in i:
        f = None
        for g, w in i['sequence']:
            f = _fails(g, w)
            print('check got=%r want=%r -> %s' % (g, w, f or 'agrees with the specification'))
        return f is not None
    f = _fails(i['got'], i['want'])
    print('input: got=%r want=%r -> %s' % (i['got'], i['want'], f or 'agrees with the specification'))
    return f is not None

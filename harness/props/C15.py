"""C15 — The pytest plugin and the native runner give the same verdict for every doctest."""
import argparse
import os
import random
import shutil
import tempfile
import warnings

from .. import driver, par
from ..codec import enc
from ..corr import runnercorr as R
from ..corr import runnerenv as E
from ..gen import runner_modules as G
from ..shrink import shrink_list

LEAN_TARGETS = ['XdocModel.Proofs.C15', 'XdocModel.Pins.Runner']
MANIFEST = {
    'text': ("Partial (pytest itself is outside the model). Proved for ALL part lists, requirement/execution/import oracles and option "
             "defaults: `run_verdicts` / `front_ends_agree` — the verdict pytest reports for an item (is_disabled(pytest=True) -> "
             "skipped; run(on_error='raise') raising -> failed; pytest.skip() inside run or nothing ran -> skipped; else passed) equals "
             "the verdict the native runner reads off the summary of run(on_error='return') on the SAME run-loop model, for every doctest "
             "that is not force-disabled, unless the 'Could not clean traceback' error escapes (then pytest says failed and the native "
             "run aborts; excluded by C09's hypothesis); force-disabled => pytest skipped, native omitted; `same_identifiers` (pytest item "
             "names = names of `list`); `anything_ran_redundant`; `both_exit_nonzero_iff_failed` (module with >=1 doctest, no escape, no "
             "pytest-only pattern: both exit != 0 iff a not-force-disabled doctest failed; uses C10.exit_nonzero_iff_failed); "
             "`option_parsers_agree`; witness `pytest_skip_pattern_disables_pytest_only` = K-C15-a. Observed: the same generated modules "
             "through `pytest --xdoctest-modules -rA -v <directory>` subprocesses (pytest discovers the batch directory: naming the files would make pytest's own python plugin import them; batches and single modules; node ids and outcomes from the junit "
             "xml, cross-checked with the -v and -rA lines), through runner.doctest_module / __main__.main / `python -m xdoctest`, x style "
             "{google, freeform, auto} x 8 option sets passed as --options and --xdoctest-options/--xdoc-options: node ids, per-doctest "
             "outcomes, TRACE of executed doctests, exit codes; the model predicts both verdicts from ONE recorded execution per doctest."),
    'note': ("Trusted: as C10; pytest (collection of items, skip/fail accounting, exit status 0/1/5) is not modelled beyond `pytestExit`; "
             "both front ends are assumed to call parse_doctestables with the same style/analysis (checked on every generated module)."),
    'technique': 'Lean 4 proof (on_error/mode independence of the run loop) + differential correspondence through real pytest and CLI processes',
}
RULE = ('random modules (1..6 callables; kinds pass, fail by output/exception, fail BEFORE any part ran (compile-only error in the first executed part, malformed directive; some modules raise on import), the doctest ENDS ITSELF at run time (calls pytest.skip() / raises xdoctest.ExitTestException, first thing / after checked output / in the middle: passed in both front ends, later doctests still run), all/partly skipped, expected exception, force-disabled x10 '
        'spellings, comment only, near-miss, ELLIPSIS/NORMALIZE_WHITESPACE/IGNORE_WHITESPACE-sensitive; two-block callables, methods) '
        'for each of 3 styles x 8 option sets (flag spelled --xdoctest-options or --xdoc-options); per configuration: a failure-free '
        'batch and a failing batch through one pytest process each + single-module pytest runs + native runs of every module; '
        'option strings through both real argument parsers vs op `populate`. non-trivial = module with >= 2 different outcomes or a '
        'force-disabled doctest; distinct = distinct (module, configuration)')
ASSUMPTIONS = ['pytest reports an item whose runtest raises as failed, pytest.skip() as skipped, and exits 1 iff an item failed (0 else, 5 if none collected)',
               'no "Could not clean traceback" escape (C09 hypothesis)',
               'K-C15-a: doctests starting with `>>> # pytest.skip` are excluded (disabled under pytest only, documented in the code)',
               'the run-loop model treats a run-time pytest.skip() like ExitTestException (result `exit`); the real Skipped is a BaseException and never reaches the expected-exception check, which differs only for a part whose want is a traceback block (not generated)']

RULE = RULE + (' | every other configuration passes style / options / analysis / global-exec / cosmetic options / verbosity through a random '
               'TREATMENT: pytest flags in both spellings, `addopts` of pytest.ini, XDOCTEST_* variables (flag over variable), with the '
               'matching native arguments and the by-construction effect (corr/runnerenv.py); the same directory twice in one pytest '
               'session; a module with 120 doctests / 60 failures (255, 256, 257 failures thorough) and a callable with 30..40 Example '
               'blocks through both front ends; text files with 1..5 blocks under --xdoctest-glob x style (items vs by-construction '
               'outcomes vs parser + DocTest.run in native mode)')
STYLES = ['google', 'freeform', 'auto']
WITNESS = {'name': 'kc15a_witness', 'funcs': [
    {'name': 'f0', 'cls': None, 'sig': '', 'blocks': [['pyskip', 1]]},
    {'name': 'f1', 'cls': None, 'sig': '', 'blocks': [['pass', 0]]}]}


def configs(quick, seed):
    out = []
    i = 0
    for style in STYLES:
        for optstr, opts in G.OPTION_SETS:
            flags = ['--xdoctest-options', '--xdoc-options']
            if quick:
                flags = [flags[(i + seed) % 2]]
            for fl in flags:
                out.append((style, optstr, opts, fl))
            i += 1
    return out


def gen_modules(rng, style, opts, n, tag):
    specs = []
    tries = 0
    while len(specs) < n and tries < 50 * n:
        tries += 1
        want_clean = len(specs) % 2 == 0
        s = G.random_spec('%s_%d' % (tag, len(specs)), rng, maxlen=6)
        exp = R.expected_front_ends(s, style, opts)
        if not exp:
            continue
        clean = not any(e['pytest'] == 'F' or e['native'] == 'F' for e in exp)
        if want_clean and not clean and tries % 3:
            continue
        specs.append(s)
    return specs


def _nontrivial(r):
    e = r['expected']
    return len(set(x['pytest'] for x in e)) >= 2 or any(x['native'] is None for x in e)


def _worker(args):
    idx, style, optstr, opts, flag, seed, n, nsingle, expect_only = args[:9]
    rng = random.Random('c15:%d:%d' % (seed, idx))
    # every other configuration: style, options and further settings reach the two front ends through a random
    # TREATMENT (pytest flags in either spelling, `addopts` of the ini file, XDOCTEST_* variables, analysis,
    # global-exec, cosmetic options, verbosity) instead of the two plain flags; see corr/runnerenv.py
    treat = None
    if idx % 2 == 1:
        treat = E.draw(rng, style, optstr, opts, for_pytest=True)
    attach = idx % 6 in (2, 5)
    if attach:
        # ATTACHED DOCSTRINGS: half of the modules of this configuration get their docstrings at import time from a
        # sibling module (no prompt in their own file); both front ends run with dynamic analysis
        base = treat or E.combine([E.style_treatments(style)[0], E.option_treatments(optstr, opts)[0]])
        base = dict(base, nat=[a for a in base['nat']], pyt=[a for a in base['pyt']], env={k: v for k, v in base['env'].items() if k != 'XDOCTEST_ANALYSIS'})
        treat = E.combine([base, E.ANALYSIS[1]])
        treat['name'] += '+attached-docstrings'
    if treat is not None:
        style, opts = treat['style'], E.oracle_opts(treat)
    d = tempfile.mkdtemp(prefix='xdocverif-c15-')
    out = {'n': 0, 'suites': {}, 'nontrivial': set(), 'tags': {}, 'dis': [], 'exp': [], 'samples': [], 'unknown': 0}
    try:
        trace = os.path.join(d, 'trace.txt')
        specs = gen_modules(rng, style, opts, n, 'm%d' % idx)
        if treat is not None and treat.get('needs_import'):
            for sp in specs:
                sp.pop('import_error', None)      # dynamic analysis has to import the module
        if attach:
            for k, sp in enumerate(specs):
                if k % 2 == 0:
                    sp['attached'] = True
        exp = {s['name']: R.expected_front_ends(s, style, opts) for s in specs}
        clean = [s for s in specs if not any(e['pytest'] == 'F' for e in exp[s['name']])]
        dirty = [s for s in specs if s not in clean]
        runs = []
        if clean:
            runs.append(('batch', clean, {}))
        if dirty:
            runs.append(('batch', dirty, {}))
        singles = (clean[:(nsingle + 1) // 2] + dirty[:nsingle // 2 + 1])[:nsingle]
        if singles:
            runs.append(('single', singles, {'per_module_pytest': True, 'native_cli': True}))
        if idx % 4 == 0 and clean:
            # STATE: the same directory twice in one pytest session
            runs.append(('twice', clean[:3], {'twice': True}))
        for kind, ss, kw in runs:
            for r in R.check_front_ends(d, ss, style, optstr, opts, flag, trace, use_model=not expect_only, treat=treat, **kw):
                out['n'] += r['n_doctests']
                su = 'pytest+native:%s' % kind
                out['suites'][su] = out['suites'].get(su, 0) + r['n_doctests']
                out['unknown'] += r['unknown']
                for e in r['expected']:
                    t = 'pytest=%s native=%s' % (e['pytest'], e['native'] or 'omitted')
                    out['tags'][t] = out['tags'].get(t, 0) + 1
                for fn in r['spec']['funcs']:
                    for b in fn['blocks']:
                        t = 'kind:' + b[0]
                        out['tags'][t] = out['tags'].get(t, 0) + 1
                if r['spec'].get('import_error'):
                    out['tags']['module raises on import'] = out['tags'].get('module raises on import', 0) + 1
                if _nontrivial(r):
                    out['nontrivial'].add(hash((G.render(r['spec']), style, optstr, flag, kind)))
                inp = {'spec': r['spec'], 'style': style, 'optstr': optstr, 'opts': opts, 'flag': flag}
                if treat is not None:
                    inp['treat'] = treat
                    for nm in treat['name'].split('+'):
                        out['tags']['opt:' + nm] = out['tags'].get('opt:' + nm, 0) + 1
                if kind == 'twice':
                    inp['twice'] = True
                if r['dis'] and len(out['dis']) < 10:
                    out['dis'].append((inp, r.get('model'), '; '.join(r['dis'])))
                if r['bad'] and len(out['exp']) < 10:
                    out['exp'].append((inp, r['expected'], {'pytest': r['pytest_items'], 'pytest_rc': r['pytest_rc'],
                                                            'native': r['native'], 'native_rc': r['native_rc']}, '; '.join(r['bad'])))
                if not out['samples'] and _nontrivial(r):
                    out['samples'].append({'module_kinds': [[b[0] for b in f['blocks']] for f in r['spec']['funcs']], 'style': style,
                                           'options': '%s=%s' % (flag, optstr), 'pytest': r['pytest_items'], 'native': r['native'],
                                           'pytest_rc': r['pytest_rc'], 'native_rc': r['native_rc'], 'model': r.get('model')})
    finally:
        shutil.rmtree(d, ignore_errors=True)
    return out


# ------------------------------------------------------------------ scale: many doctests / failures / blocks
def scale_tasks(quick):
    t = [('many', {'n': 120, 'nfail': 60, 'nskip': 10}), ('blocks', {'nblocks': 30, 'prose': 800})]
    if not quick:
        t += [('many', {'n': nf + 10, 'nfail': nf, 'nskip': 3}) for nf in (255, 256, 257)]
        t += [('many', {'n': 200, 'nfail': 0, 'nskip': 200}), ('blocks', {'nblocks': 40, 'prose': 4000})]
    return t


def _scale_job(args):
    idx, kind, prm, seed, expect_only = args
    rng = random.Random('c15scale:%d:%d' % (seed, idx))
    d = tempfile.mkdtemp(prefix='xdocverif-c15sc-')
    out = {'n': 0, 'suites': {}, 'nontrivial': set(), 'tags': {}, 'dis': [], 'exp': [], 'samples': [], 'unknown': 0}
    try:
        if kind == 'many':
            spec = G.scale_spec('psc%d' % idx, prm['n'], prm['nfail'], rng, prm['nskip'])
        else:
            spec = G.manyblock_spec('psb%d' % idx, prm['nblocks'], rng, prm['prose'])
        style = rng.choice(STYLES)
        r = R.check_front_ends(d, [spec], style, None, {}, '--xdoctest-options', os.path.join(d, 't.txt'),
                               use_model=not expect_only, per_module_pytest=True, native_cli=True)[0]
        out['n'] += r['n_doctests']
        out['suites']['pytest+native:scale'] = r['n_doctests']
        out['unknown'] += r['unknown']
        out['tags']['scale:%s %r' % (kind, sorted(prm.items()))] = 1
        out['nontrivial'].add(hash(('c15scale', kind, repr(prm), style)))
        inp = {'spec': spec, 'style': style, 'optstr': None, 'opts': {}, 'flag': '--xdoctest-options'}
        short = lambda x: x if not isinstance(x, list) or len(x) <= 12 else x[:6] + ['... %d entries ...' % len(x)] + x[-3:]
        if r['dis']:
            out['dis'].append((inp, None, '; '.join(r['dis'])[:1500]))
        if r['bad']:
            out['exp'].append((inp, short(r['expected']), {'pytest': short(r['pytest_items']), 'pytest_rc': r['pytest_rc'],
                                                           'native': short(r['native']), 'native_rc': r['native_rc']},
                               '; '.join(r['bad'])[:1500]))
    finally:
        shutil.rmtree(d, ignore_errors=True)
    return out


# ------------------------------------------------------------------ text files (pytest only: --xdoctest-glob)
TEXT_KINDS = ['pass', 'failout', 'failexc', 'allskip', 'partskip', 'expexc', 'comment', 'disabled', 'failcompile']


def text_file(blocks, name):
    """a text file with several `Example:` blocks (no module, hence no `_trace`)"""
    out = ['A text file with doctests.', '']
    for n, (k, v) in enumerate(blocks):
        out += ['Some prose before block %d.' % n, '', 'Example:']
        out += ['    ' + l for l in G.block_lines(k, v, '%s:%d' % (name, n)) if "_trace(" not in l]
        out += ['']
    return '\n'.join(out) + '\n'


def text_expect(blocks, name, style):
    """outcomes pytest must report, in order: one item per block (google / auto), one merged item (freeform);
    a force-disabled first block makes the item skipped"""
    idents = ['%s:%d' % (name, n) for n in range(len(blocks))]
    if style == 'freeform':
        dts = [{'blocks': [(k, v, i) for (k, v), i in zip(blocks, idents)]}]
    else:
        dts = [{'blocks': [(k, v, i)]} for (k, v), i in zip(blocks, idents)]
    return ['S' if G.disabled(dt, pytest=True) else G.doctest_outcome(dt, {})[0] for dt in dts]


def _text_job(args):
    idx, seed, nfiles, expect_only = args
    import io
    import contextlib
    rng = random.Random('c15text:%d:%d' % (seed, idx))
    d = tempfile.mkdtemp(prefix='xdocverif-c15tx-')
    out = {'n': 0, 'suites': {}, 'nontrivial': set(), 'tags': {}, 'dis': [], 'exp': [], 'samples': [], 'unknown': 0}
    try:
        from xdoctest import core
        style = STYLES[idx % 3]
        sub = os.path.join(d, 'texts')
        os.makedirs(sub)
        files = []
        for i in range(nfiles):
            name = 'doc%d_%02d.txt' % (idx, i)
            blocks = [(rng.choice(TEXT_KINDS), rng.randrange(20)) for _ in range(rng.randint(1, 5))]
            # merged freeform doctests: the two-block rules of the generator apply (no force-disabled in the middle)
            if style == 'freeform':
                blocks = [(k if (j == 0 or k != 'disabled') else 'pass', v) for j, (k, v) in enumerate(blocks)]
            with open(os.path.join(sub, name), 'w') as f:
                f.write(text_file(blocks, name))
            files.append((name, blocks))
        r = R.pytest_subprocess(d, [os.path.join(sub, files[0][0])], style, '--xdoctest-options', None, os.path.join(d, 't.txt'),
                                os.path.join(d, 'junit.xml'), extra_args=['--xdoctest-glob=*.txt'])
        got = {}
        for cls, nm, oc in (r['items'] or []):
            got.setdefault(nm, []).append(oc)
        anyf = False
        for name, blocks in sorted(files):
            exp = text_expect(blocks, name, style)
            anyf = anyf or 'F' in exp
            # the same text through the parser + DocTest.run in native mode (what the native runner would do)
            text = open(os.path.join(sub, name)).read()
            nat = []
            with contextlib.redirect_stdout(io.StringIO()), warnings.catch_warnings():
                warnings.simplefilter('ignore')
                for ex in core.parse_docstr_examples(text, name, fpath=os.path.join(sub, name), style=style):
                    ex.mode = 'native'
                    if ex.is_disabled(pytest=True):
                        nat.append('S')
                        continue
                    sm = ex.run(on_error='return', verbose=0)
                    nat.append('S' if sm['skipped'] else ('P' if sm['passed'] else 'F'))
            out['n'] += len(exp)
            out['suites']['pytest:textfile'] = out['suites'].get('pytest:textfile', 0) + len(exp)
            out['nontrivial'].add(hash(('text', text, style)))
            why = []
            if got.get(name, []) != exp:
                why.append('pytest outcomes of the items of %s: %r, expected %r' % (name, got.get(name, []), exp))
            if nat != exp:
                why.append('parser + DocTest.run (native mode) on the same text: %r, expected %r' % (nat, exp))
            if why and len(out['exp']) < 5:
                out['exp'].append(({'textfile': text, 'name': name, 'style': style}, exp,
                                   {'pytest': got.get(name), 'native': nat, 'pytest_rc': r['rc']}, '; '.join(why)))
        if r['rc'] != (1 if anyf else 0) and len(out['exp']) < 5:
            out['exp'].append(({'textfiles': [n for n, _ in files], 'style': style}, 1 if anyf else 0, r['rc'],
                               'pytest exit status %r over the text files, expected %r: %s' % (r['rc'], 1 if anyf else 0, r['stdout'][-300:])))
    finally:
        shutil.rmtree(d, ignore_errors=True)
    return out


def _dispatch(job):
    kind, args = job
    return {'cfg': _worker, 'scale': _scale_job, 'text': _text_job}[kind](args)


def _merge(corr, r):
    for k, v in r['suites'].items():
        corr.count(k, v)
    corr.nontrivial |= r['nontrivial']
    corr.unknown += r.get('unknown', 0)
    for k, v in r['tags'].items():
        corr.tag(k, v)
    for inp, m, why in r['dis']:
        corr.disagree('front_ends', inp, m, why)
    for inp, e, o, why in r['exp']:
        corr.expect_fail('front_ends', inp, e, o, why)
    for s in r['samples']:
        corr.sample(s)


# ------------------------------------------------------------------ option parsers (unit level)
def real_defaults(optstr):
    """(pytest, native) default_runtime_state through the two REAL argument parsers; 'raise' on error"""
    from _pytest.config.argparsing import Parser
    from xdoctest import plugin, doctest_example
    res = []
    for which in ('--xdoctest-options', '--xdoc-options', '--options'):
        try:
            with warnings.catch_warnings():
                warnings.simplefilter('ignore')
                if which == '--options':
                    p = argparse.ArgumentParser()
                    doctest_example.DoctestConfig()._update_argparse_cli(p.add_argument)
                    ns, _ = p.parse_known_args([] if optstr is None else [which + '=' + optstr])
                    if ns.options is None:
                        ns.options = ''      # what __main__ does when no config file supplies one
                    d = doctest_example.DoctestConfig()._populate_from_cli(ns.__dict__)['default_runtime_state']
                else:
                    parser = Parser(_ispytest=True)
                    plugin.pytest_addoption(parser)
                    ns = parser.parse_known_args([] if optstr is None else [which + '=' + optstr])

                    class NS(object):
                        def __getitem__(self, a):
                            return getattr(ns, 'xdoctest_' + a)
                    d = doctest_example.DoctestConfig()._populate_from_cli(NS())['default_runtime_state']
            res.append(','.join('%s=%d' % (k, 1 if v else 0) for k, v in d.items()) or '~')
        except Exception:
            res.append('raise')
    return res


def option_unit(ctx, corr):
    rng = ctx.sub_rng('options')
    pieces = ['+SKIP', '-SKIP', 'skip', '+ELLIPSIS', '-ellipsis', '+IGNORE_WHITESPACE', '-NORMALIZE_WHITESPACE', '+ignore_want',
              ' +SKIP ', '+nonsense', '', '-Ellipsis', '+REPORT_NDIFF', '-DONT_ACCEPT_BLANKLINE', '+ SKIP', 'ELLIPSIS', '-', '+']
    cases = [None] + [o for o, _ in G.OPTION_SETS if o is not None]
    for _ in range(150 if ctx.quick else 2000):
        cases.append(','.join(rng.choice(pieces) for _ in range(rng.randint(1, 4))))
    ans = driver.run_lines(['populate\t' + ('N' if c is None else enc(c)) for c in cases])
    for c, a in zip(cases, ans):
        rp1, rp2, rn = real_defaults(c)
        m = dict(x.split('=', 1) for x in a.split(' '))
        corr.count('populate')
        if c and (',' in c or '-' in c):
            corr.nontriv(('opt', c))
        if (m['pytest'], m['pytest'], m['native']) != (rp1, rp2, rn):
            corr.disagree('populate', {'options': c}, a, 'pytest=%s|%s native=%s' % (rp1, rp2, rn))
        if not (rp1 == rp2 == rn):
            corr.expect_fail('populate', {'options': c, 'unit': 'option parsers'}, 'same defaults from all three flags',
                             {'--xdoctest-options': rp1, '--xdoc-options': rp2, '--options': rn},
                             'the option parsers of the two front ends produce different directive defaults')


# ------------------------------------------------------------------ protocol
def correspondence(ctx, corr):
    option_unit(ctx, corr)
    from . import C10 as c10
    c10.disabled_unit(ctx, corr)     # is_disabled(pytest=False/True) vs the model, IGNORECASE tables
    cfgs = configs(ctx.quick, ctx.seed)
    n, ns = (6, 1) if ctx.quick else (24, 4)
    jobs = [('scale', (i, k, prm, ctx.seed, False)) for i, (k, prm) in enumerate(scale_tasks(ctx.quick))]
    jobs += [('cfg', (i, st, o, od, fl, ctx.seed, n, ns, False)) for i, (st, o, od, fl) in enumerate(cfgs)]
    jobs += [('text', (i, ctx.seed, 4 if ctx.quick else 20, False)) for i in range(3 if ctx.quick else 9)]
    for r in par.pmap(_dispatch, jobs):
        _merge(corr, r)


def _check_one(inp, use_model=False):
    d = tempfile.mkdtemp(prefix='xdocverif-c15s-')
    try:
        r = R.check_front_ends(d, [inp['spec']], inp['style'], inp['optstr'], inp['opts'], inp['flag'],
                               os.path.join(d, 't.txt'), use_model=use_model, per_module_pytest=True,
                               treat=inp.get('treat'), twice=bool(inp.get('twice')))[0]
        return r
    finally:
        shutil.rmtree(d, ignore_errors=True)


def _shrink_hit(inp):
    if 'spec' not in inp:
        return None
    name = inp['spec']['name']
    counter = [0]

    def variant(funcs):
        # keeps the module-level flags of the spec (attached docstrings, import error, ...); a NEW module name for
        # every evaluation, because a module imported under a name stays in sys.modules (K-C10-c)
        counter[0] += 1
        return dict(inp, spec=dict(inp['spec'], name='%s_s%d' % (name, counter[0]), funcs=funcs))

    def pred(funcs):
        if not funcs or not any(f['blocks'] for f in funcs):
            return False
        return bool(_check_one(variant(funcs))['bad'])

    funcs = shrink_list(inp['spec']['funcs'], pred, max_steps=10)
    small = variant(funcs)
    r = _check_one(small)
    if not r['bad']:
        small = variant(inp['spec']['funcs'])
        r = _check_one(small)
    if not r['bad']:
        return None
    return {'kind': 'expectation', 'suite': 'front_ends',
            'input': dict(small, module_source=G.render(small['spec'])),
            'expected': r['expected'], 'impl': {'pytest': r['pytest_items'], 'pytest_rc': r['pytest_rc'],
                                                 'native': r['native'], 'native_rc': r['native_rc']},
            'why': '; '.join(r['bad'])}


def search(ctx, corr, broken):
    c2 = type(corr)()
    if not corr.expect_failures:
        # nothing failed its by-construction expectation during the correspondence: look wider
        cfgs = configs(True, ctx.seed + 1)
        args = [(i, st, o, od, fl, ctx.seed + 1000, 6, 0, True) for i, (st, o, od, fl) in enumerate(cfgs)]
        for r in par.pmap(_worker, args):
            _merge(c2, r)
    cands = [e['input'] for e in list(corr.expect_failures) + list(c2.expect_failures) if 'spec' in e['input']]
    cands.sort(key=lambda i: (len(i['spec']['funcs']), len(repr(i))))
    hits = []
    for e in list(corr.expect_failures) + list(c2.expect_failures):
        if 'spec' not in e['input']:
            hits.append({'kind': 'expectation', 'suite': e['suite'], 'input': e['input'], 'expected': e['expected'],
                         'impl': e['impl'], 'why': e['why']})
            break
    for h in par.pmap(_shrink_hit, cands[:3]):
        if h is not None:
            hits.append(h)
    return hits[:4]


def _pyskip_ids(spec, style):
    return [d['unique'] for d in G.inventory(spec, style) if d['blocks'][0][0] == 'pyskip']


def classify(ctx, hit):
    """K-C15-a: ONLY a module whose differing doctests start with the pytest-only pattern, and
    which agrees once that first line is replaced by a plain comment"""
    inp = hit.get('input', {})
    if 'spec' not in inp:
        return None
    ids = _pyskip_ids(inp['spec'], inp['style'])
    if not ids:
        return None
    r = _check_one(inp)
    for b in r['bad']:
        if not any((' ' + i + ':') in b or (' ' + i + ' ') in b for i in ids) or not (
                b.startswith('VERDICTS DIFFER') or 'omitted natively' in b):
            return None
    neutral = {'name': inp['spec']['name'] + '_n', 'funcs': [
        dict(f, blocks=[['plaincmt' if b[0] == 'pyskip' else b[0], b[1]] for b in f['blocks']]) for f in inp['spec']['funcs']]}
    if _check_one(dict(inp, spec=neutral))['bad']:
        return None
    return 'K-C15-a'


KMOD = ('def f():\n    """\n    Example:\n        >>> print(1)\n        1\n\n    Example:\n        >>> print(2)\n        3\n    """\n')


def _witness_settings(ini_lines, env_extra):
    """module f with two Example blocks (pass, fail by output) in a directory with the given pytest.ini /
    environment; NO style or option flag on either command line.
    returns (native verdict lines, native exit status, pytest items, pytest exit status)"""
    import subprocess
    import sys
    d = tempfile.mkdtemp(prefix='xdocverif-c15k-')
    try:
        sub = os.path.join(d, 'pkgdir')
        os.makedirs(sub)
        with open(os.path.join(sub, 'kmod_verif.py'), 'w') as f:
            f.write(KMOD)
        with open(os.path.join(sub, 'pytest.ini'), 'w') as f:
            f.write('\n'.join(['[pytest]'] + ini_lines) + '\n')
        env = R.clean_env()
        env.update(env_extra)
        p = subprocess.run([sys.executable, '-m', 'xdoctest', 'kmod_verif.py', 'all', '--verbose', '1'], cwd=sub, env=env,
                           stdout=subprocess.PIPE, stderr=subprocess.STDOUT, timeout=120)
        nat = R.verdict_lines(p.stdout.decode('utf8', 'replace'))
        junit = os.path.join(d, 'j.xml')
        q = subprocess.run([sys.executable, '-m', 'pytest', '--xdoctest-modules', '-p', 'no:cacheprovider', '-q',
                            '--junitxml=' + junit, '-o', 'junit_family=xunit1', '.'], cwd=sub, env=env,
                           stdout=subprocess.PIPE, stderr=subprocess.STDOUT, timeout=300)
        items = []
        try:
            import xml.etree.ElementTree as ET
            for tc in ET.parse(junit).iter('testcase'):
                tags = [c.tag for c in tc]
                items.append((tc.attrib.get('name'), 'F' if ('failure' in tags or 'error' in tags) else ('S' if 'skipped' in tags else 'P')))
        except Exception:
            items = None
        return nat, p.returncode, items, q.returncode
    finally:
        shutil.rmtree(d, ignore_errors=True)


def replay_finding(ctx, finding):
    if finding.get('id') == 'K-C15-b':
        nat, nrc, items, prc = _witness_settings(['xdoctest_options = +SKIP'], {})
        # native: everything skipped, exit 0; pytest: the ini key is unknown to it, the doctests run, one fails
        return [o for o, _ in nat] == ['S'] * len(nat) and nat and nrc == 0 and items is not None \
            and 'F' in [o for _, o in items] and prc == 1
    if finding.get('id') == 'K-C15-c':
        nat, nrc, items, prc = _witness_settings([], {'XDOCTEST_STYLE': 'google'})
        # native: google style -> f:0 passes, f:1 fails; pytest: keeps its default style (freeform): ONE item f:0
        return [n for _, n in nat] == ['f:0', 'f:1'] and items is not None and [n for n, _ in items] == ['f:0']
    if finding.get('id') != 'K-C15-a':
        return False
    r = _check_one({'spec': WITNESS, 'style': 'google', 'optstr': None, 'opts': {}, 'flag': '--xdoctest-options'}, use_model=True)
    differs = [b for b in r['bad'] if b.startswith('VERDICTS DIFFER for f0:0: pytest S, native F')]
    if r['dis']:
        ctx.note('K-C15-a witness: model and implementation disagree: %s' % '; '.join(r['dis']))
    return bool(differs) and r['pytest_rc'] == 0 and r['native_rc'] == 1


def _replay_text(inp):
    d = tempfile.mkdtemp(prefix='xdocverif-c15tx-')
    try:
        sub = os.path.join(d, 'texts')
        os.makedirs(sub)
        with open(os.path.join(sub, inp['name']), 'w') as f:
            f.write(inp['textfile'])
        r = R.pytest_subprocess(d, [os.path.join(sub, inp['name'])], inp['style'], '--xdoctest-options', None,
                                os.path.join(d, 't.txt'), os.path.join(d, 'junit.xml'), extra_args=['--xdoctest-glob=*.txt'])
        return [oc for _, nm, oc in (r['items'] or []) if nm == inp['name']], r['rc']
    finally:
        shutil.rmtree(d, ignore_errors=True)


def _replay_text_native(inp):
    """the same text through the parser + DocTest.run in native mode (what the native runner would do)"""
    import contextlib
    import io
    import warnings
    from xdoctest import core
    nat = []
    with warnings.catch_warnings(), contextlib.redirect_stdout(io.StringIO()):
        warnings.simplefilter('ignore')
        for ex in core.parse_docstr_examples(inp['textfile'], inp['name'], fpath='/nonexistent/' + inp['name'], style=inp['style']):
            ex.mode = 'native'
            if ex.is_disabled(pytest=True):
                nat.append('S')
                continue
            sm = ex.run(on_error='return', verbose=0)
            nat.append('S' if sm['skipped'] else ('P' if sm['passed'] else 'F'))
    return nat


def replay(ctx, failing):
    inp = failing['input']
    if 'textfile' in inp:
        got, rc = _replay_text(inp)
        nat = _replay_text_native(inp)
        print('text file %s (style %s):\n%s' % (inp['name'], inp['style'], inp['textfile']))
        print('expected outcomes of its doctests          : %r' % (failing.get('expected'),))
        print('pytest reports now                         : %r (exit status %r)' % (got, rc))
        print('parser + DocTest.run in native mode give now: %r' % (nat,))
        return got != failing.get('expected') or nat != failing.get('expected')
    if 'textfiles' in inp:
        print('exit status of pytest over a directory of text files: recorded %r, expected %r' % (failing.get('impl'), failing.get('expected')))
        return True
    if 'spec' not in inp:
        print('option string %r through the real parsers: %r' % (inp.get('options'), real_defaults(inp.get('options'))))
        a = real_defaults(inp.get('options'))
        return not (a[0] == a[1] == a[2])
    r = _check_one(inp)
    print('module:\n' + G.render(inp['spec']))
    if inp.get('treat'):
        t = inp['treat']
        print('style=%s treatment %s: pytest args %r, pytest.ini %r, native args %r, environment %r' % (
            inp['style'], t['name'], t['pyt'], t['ini'], t['nat'], t['env']))
    else:
        print('style=%s options: %s=%s' % (inp['style'], inp['flag'], inp['optstr']))
    if inp.get('twice'):
        print('(the module directory is given twice in one pytest session)')
    print('expected: %r' % (r['expected'],))
    print('pytest  : %r exit %r' % (r['pytest_items'], r['pytest_rc']))
    print('native  : %r exit %r' % (r['native'], r['native_rc']))
    print('problems: %s' % ('; '.join(r['bad']) or 'none'))
    return bool(r['bad'])

"""
Generic verdict protocol (DESIGN.md section 1) shared by all property checks.

    regenerate Generated.lean -> lake build (proof obligations + driver) -> axiom audit
      -> correspondence suites -> replay of known-finding witnesses
    all green -> exit 0
    something broken -> failing-input search on the REAL code with the property's
                        independent oracle -> VIOLATION (with replay) / no-failing-input-found
"""
import hashlib
import importlib
import json
import os
import random
import sys
import time
import traceback

from . import paths, leanbuild, driver

TRUSTED_BASE = [
    'Lean 4.33.0 kernel (thorough tier: leanchecker re-check of the .olean files)',
    'axioms allowed in #print axioms: propext, Classical.choice, Quot.sound (audited every run); no sorry/admit/axiom/native_decide/bv_decide/implemented_by/unsafe (grep every run)',
    'tools/extract_constants.py (ast-only translator of tables and regex texts into Generated.lean)',
    'harness/ (correspondence harness, generators, canonicalisation) and lean/Driver/*.lean (decoding/printing only)',
    'hand-written Lean model of the Python code, tied to /repo by the correspondence run of this check',
]


class Ctx(object):
    def __init__(self, prop_id, tier, seed):
        self.prop_id = prop_id
        self.tier = tier
        self.seed = seed
        self.rng = random.Random(seed)
        self.repo = paths.repo_root()
        self.t0 = time.time()
        self.notes = []
        self.model_ok = True       # driver built from the current Generated.lean

    @property
    def quick(self):
        return self.tier == 'quick'

    def sub_rng(self, label):
        h = hashlib.sha256(('%d:%s' % (self.seed, label)).encode()).digest()
        return random.Random(int.from_bytes(h[:8], 'big'))

    def note(self, msg):
        self.notes.append(msg)
        print('note: ' + msg, flush=True)


class Corr(object):
    """accumulates the outcome of the correspondence suites of one run"""

    def __init__(self):
        self.evaluations = 0
        self.nontrivial = set()
        self.nontrivial_extra = 0   # distinct non-trivial cases counted inside disjoint worker shards
        self.samples = []
        self.tags = {}
        self.disagreements = []    # model != implementation: dict(suite, input, model, impl)
        self.expect_failures = []  # by-construction expectation != implementation
        self.suites = {}
        self.exhaustive = False
        self.unknown = 0

    def count(self, suite, n=1):
        self.evaluations += n
        self.suites[suite] = self.suites.get(suite, 0) + n

    def tag(self, t, n=1):
        self.tags[t] = self.tags.get(t, 0) + n

    def nontriv(self, key):
        if len(self.nontrivial) < 5000000:
            self.nontrivial.add(hash(key))

    def n_nontrivial(self):
        return len(self.nontrivial) + self.nontrivial_extra

    def sample(self, s, limit=12):
        if len(self.samples) < limit:
            self.samples.append(s)

    def disagree(self, suite, inp, model, impl):
        if len(self.disagreements) < 200:
            self.disagreements.append({'suite': suite, 'input': inp, 'model': model, 'impl': impl})
        else:
            self.disagreements[-1].setdefault('more', 0)
            self.disagreements[-1]['more'] += 1

    def expect_fail(self, suite, inp, expected, impl, why=''):
        if len(self.expect_failures) < 200:
            self.expect_failures.append({'suite': suite, 'input': inp, 'expected': expected, 'impl': impl, 'why': why})


def load_findings():
    try:
        with open(paths.KNOWN_FINDINGS) as f:
            return json.load(f)
    except FileNotFoundError:
        return {'findings': [], 'fixed': []}


def write_replay(prop_id, payload):
    os.makedirs(paths.REPLAY_DIR, exist_ok=True)
    blob = json.dumps(payload, sort_keys=True, default=repr)
    h = hashlib.sha256(blob.encode()).hexdigest()[:12]
    p = os.path.join(paths.REPLAY_DIR, '%s-%s.json' % (prop_id, h))
    with open(p, 'w') as f:
        json.dump(payload, f, indent=1, sort_keys=True, default=repr)
    return p


def write_evidence(ctx, mod, obligations, discharged, corr, violations, extra=None):
    os.makedirs(paths.EVIDENCE_DIR, exist_ok=True)
    cov = {
        'obligations': obligations,
        'discharged': discharged,
        'checker_cmd': 'cd lean && lake build %s xdocdriver && lake env lean .lake/audit/Audit_%s.lean  (#print axioms)' % (
            ' '.join(mod.LEAN_TARGETS), ctx.prop_id) + ('' if ctx.quick else ' && lake env leanchecker ' + ' '.join(mod.LEAN_TARGETS)),
        'trusted_base': TRUSTED_BASE + list(getattr(mod, 'TRUSTED_EXTRA', [])),
        'evaluations': corr.evaluations,
        'distinct_nontrivial': corr.n_nontrivial(),
        'rule': getattr(mod, 'RULE', ''),
        'samples': corr.samples[:12] or ['(no correspondence case was run)'],
        'exhaustive': bool(corr.exhaustive),
        'suites': corr.suites,
        'branch_tags': corr.tags,
        'model_vs_impl_disagreements': len(corr.disagreements),
        'expectation_failures': len(corr.expect_failures),
        'not_compared_unknown': corr.unknown,
        'notes': ctx.notes,
    }
    if extra:
        cov.update(extra)
    ev = {
        'property_id': ctx.prop_id,
        'tier': ctx.tier,
        'seed': ctx.seed,
        'level': 'proof',
        'coverage': cov,
        'assumptions': list(getattr(mod, 'ASSUMPTIONS', [])),
        'wall_s': round(time.time() - ctx.t0, 2),
        'violations': violations,
    }
    p = os.path.join(paths.EVIDENCE_DIR, '%s.json' % ctx.prop_id)
    if os.path.realpath(ctx.repo) != os.path.realpath('/repo'):
        # a run against another tree (mutant / seeded change, XDOC_VERIF_REPO): its record must never replace
        # the evidence of /repo itself
        alt = os.path.join(paths.REPLAY_DIR, 'evidence-other-tree')
        os.makedirs(alt, exist_ok=True)
        p = os.path.join(alt, '%s.json' % ctx.prop_id)
    tmp = p + '.tmp%d' % os.getpid()
    with open(tmp, 'w') as f:
        json.dump(ev, f, indent=1, default=repr)
    os.replace(tmp, p)
    return p


def prepare_repo_import(ctx):
    src = os.path.join(ctx.repo, 'src')
    if src in sys.path:
        sys.path.remove(src)
    sys.path.insert(0, src)
    os.environ['PYTHONPATH'] = src + os.pathsep + os.environ.get('PYTHONPATH', '')
    sys.dont_write_bytecode = True
    os.environ['PYTHONDONTWRITEBYTECODE'] = '1'
    import xdoctest  # noqa
    got = os.path.realpath(os.path.dirname(xdoctest.__file__))
    want = os.path.realpath(os.path.join(src, 'xdoctest'))
    if got != want:
        raise RuntimeError('xdoctest imported from %s, expected %s' % (got, want))


def run_check(prop_id, tier, seed):
    """returns the process exit code"""
    ctx = Ctx(prop_id, tier, seed)
    mod = importlib.import_module('harness.props.' + prop_id)
    try:
        from .props import _extra
        extra = [t for t in _extra.EXTRA_TARGETS.get(prop_id, []) if t not in mod.LEAN_TARGETS]
        if extra:
            mod.LEAN_TARGETS = list(mod.LEAN_TARGETS) + extra
    except ImportError:
        pass
    findings = load_findings()
    known = {f['id']: f for f in findings.get('findings', []) if f.get('property') == prop_id}
    print('== %s tier=%s seed=%d repo=%s' % (prop_id, tier, seed, ctx.repo), flush=True)

    broken = []   # obligations / correspondences that no longer check: list of str

    # ---- 1. translator
    try:
        changed = leanbuild.regenerate(ctx.repo)
        if changed:
            ctx.note('Generated.lean changed (sources differ from the committed copy)')
    except Exception as ex:
        broken.append('translator: %r' % (ex,))
        traceback.print_exc()

    # ---- 2. build: driver (model) first, then the proof obligations of this property
    theorems = leanbuild.load_theorems(prop_id)
    names = [t['name'] for t in theorems]
    b1 = leanbuild.build(['xdocdriver'])
    if not b1['ok']:
        ctx.model_ok = False
        for e in b1['errors'][:10]:
            broken.append('model does not build: %s:%d %s (%s)' % (e['file'], e['line'], e['msg'][:200], e['decl']))
        if not b1['errors']:
            broken.append('model does not build: ' + b1['log'][-800:])
    else:
        try:
            leanbuild.private_driver()
        except Exception as ex:
            ctx.note('could not take a private copy of the driver: %r' % (ex,))
    b2 = leanbuild.build(mod.LEAN_TARGETS)
    failed_decls = set()
    if not b2['ok']:
        for e in b2['errors'][:20]:
            broken.append('proof obligation fails: %s:%d %s (%s)' % (e['file'], e['line'], e['msg'][:200], e['decl']))
            failed_decls.add(e['decl'])
        if not b2['errors']:
            broken.append('lake build %s failed: %s' % (' '.join(mod.LEAN_TARGETS), b2['log'][-800:]))
    print('build: driver %s (%.1fs), obligations %s (%.1fs)' % (
        'ok' if b1['ok'] else 'FAILED', b1['wall_s'], 'ok' if b2['ok'] else 'FAILED', b2['wall_s']), flush=True)

    # ---- 3. axiom audit
    obligations = len(names)
    discharged = 0
    if b2['ok']:
        try:
            res, log = leanbuild.audit(prop_id, mod.LEAN_TARGETS, names)
            for n in names:
                ax = res.get(n)
                if ax is None:
                    broken.append('theorem missing: ' + n)
                elif set(ax) - leanbuild.ALLOWED_AXIOMS:
                    broken.append('theorem %s depends on axioms %s' % (n, sorted(set(ax) - leanbuild.ALLOWED_AXIOMS)))
                else:
                    discharged += 1
        except Exception as ex:
            broken.append('axiom audit failed: %r' % (ex,))
        hits = leanbuild.forbidden_tokens()
        if hits:
            broken.append('forbidden constructs in Lean sources: ' + '; '.join(hits[:5]))
            discharged = 0
    print('audit: %d/%d theorems discharged with allowed axioms' % (discharged, obligations), flush=True)

    if not ctx.quick and b2['ok']:
        t = time.time()
        with leanbuild.Lock():
            rc, log = leanbuild.lake(['env', 'leanchecker'] + list(mod.LEAN_TARGETS), timeout=3000)
        print('leanchecker: rc=%d (%.0fs)' % (rc, time.time() - t), flush=True)
        if rc != 0:
            broken.append('leanchecker rejects the compiled modules: ' + log[-500:])

    # ---- 4. correspondence
    corr = Corr()
    infra_error = None
    try:
        prepare_repo_import(ctx)
    except Exception as ex:
        infra_error = 'cannot import xdoctest from %s: %r' % (ctx.repo, ex)
    if infra_error is None:
        try:
            mod.correspondence(ctx, corr)
        except driver.DriverError as ex:
            broken.append('driver failure during correspondence: %s' % (ex,))
            traceback.print_exc()
        except Exception as ex:
            broken.append('correspondence harness raised: %r' % (ex,))
            traceback.print_exc()
    for d in corr.disagreements[:5]:
        broken.append('correspondence %s: model != implementation on %r (model=%r impl=%r)' % (
            d['suite'], d['input'], d['model'], d['impl']))
    print('correspondence: %d evaluations, %d distinct non-trivial, %d disagreements, %d expectation failures' % (
        corr.evaluations, corr.n_nontrivial(), len(corr.disagreements), len(corr.expect_failures)), flush=True)

    if infra_error:
        print('INFRASTRUCTURE ERROR: ' + infra_error)
        return 2

    # ---- 5. known-finding witnesses replayed on the real code
    known_lines = []
    stale = []
    for kid, k in sorted(known.items()):
        try:
            try:
                from .props import _extra
                extra_replay = _extra.EXTRA_FINDING_REPLAYS.get(kid)
            except ImportError:
                extra_replay = None
            rep = extra_replay(ctx, k) if extra_replay else mod.replay_finding(ctx, k)
        except Exception as ex:
            rep = None
            ctx.note('replay of %s raised %r' % (kid, ex))
        if rep:
            known_lines.append('KNOWN-FINDING: property=%s %s: %s' % (prop_id, kid, k['what']))
        else:
            stale.append(kid)
            ctx.note('known finding %s does not reproduce on this tree' % kid)

    # ---- 6. verdict
    violations = []      # (replay path, suffix)
    hits = []
    for e in corr.expect_failures:
        hits.append({'kind': 'expectation', 'suite': e['suite'], 'input': e['input'], 'expected': e['expected'],
                     'impl': e['impl'], 'why': e['why']})
    if broken or hits:
        print('broken obligations/correspondences:', flush=True)
        for b in broken[:12]:
            print('  - ' + b)
        try:
            found = mod.search(ctx, corr, broken)
        except Exception as ex:
            traceback.print_exc()
            ctx.note('failing-input search raised %r' % (ex,))
            found = []
        # the hits returned by the search are the shrunk ones: put them FIRST, so that the (at most 5)
        # replays written below are the minimised inputs; the raw expectation failures of the
        # correspondence follow (nothing is dropped: every hit is still classified)
        hits = list(found) + hits
        unlisted = []
        for h in hits:
            try:
                kid = mod.classify(ctx, h)
            except Exception:
                kid = None
            if kid is not None and kid in known:
                line = 'KNOWN-FINDING: property=%s %s: %s' % (prop_id, kid, known[kid]['what'])
                if line not in known_lines:
                    known_lines.append(line)
            else:
                unlisted.append(h)
        if unlisted:
            # one replay per distinct failing input (at most 5)
            seen = set()
            for h in unlisted:
                key = json.dumps(h.get('input'), sort_keys=True, default=repr)
                if key in seen or len(seen) >= 5:
                    continue
                seen.add(key)
                p = write_replay(prop_id, {'property': prop_id, 'kind': 'failing-input', 'failing': h,
                                           'broken': broken[:20], 'seed': seed, 'tier': tier,
                                           'replay_cmd': './check --replay <this file>'})
                violations.append((p, ''))
        elif broken and not _only_known(mod, ctx, corr, broken, hits, known):
            p = write_replay(prop_id, {'property': prop_id, 'kind': 'no-failing-input-found',
                                       'no_longer_checks': broken[:40],
                                       'first_disagreements': corr.disagreements[:5],
                                       'seed': seed, 'tier': tier})
            violations.append((p, ' no-failing-input-found'))

    for l in known_lines:
        print(l)
    write_evidence(ctx, mod, obligations, discharged, corr, len(violations),
                   extra={'broken': broken[:40], 'known_findings_replayed': sorted(set(known) - set(stale)),
                          'known_findings_stale': stale})
    for p, suffix in violations:
        print('VIOLATION property=%s replay=%s%s' % (prop_id, p, suffix))
    print('== %s done in %.1fs: %s' % (prop_id, time.time() - ctx.t0, 'VIOLATION' if violations else 'ok'), flush=True)
    return 1 if violations else 0


def _only_known(mod, ctx, corr, broken, hits, known):
    """a broken correspondence whose every disagreement is explained by listed findings"""
    f = getattr(mod, 'broken_explained_by_known', None)
    if f is None:
        return False
    try:
        return bool(f(ctx, corr, broken, hits, known))
    except Exception:
        return False
